"""Property table: which harnesses / kernels decide which property, with the stated bounds."""

ADJ_BOUNDS = ('design matrices: the fixed skeleton list of harness/adjcommon.h (12 patterns: levelling, vector, dense, banded, '
              'disconnected, dependent columns, empty row, zero column, single column, zero redundancy) plus VERIF_SEED-dependent random sparse '
              'integer matrices (m<=9, n<=5, planted defect<=2), each with 3 (quick) / 6 (thorough) covariance layouts (1x1 blocks, diagonal block, '
              'banded width 1/2, full) built as L L\' with rational L, all/explicit regularisation subsets (<=4 quick, <=8 thorough); right-hand side fully '
              'symbolic (unbounded reals). svd only on matrices constructed with a rational decomposition (Cayley factors).')
ADJ_OUT = ('rounding (exact arithmetic, L1); the Golub-Reinsch iteration itself (contract stub, L2); design matrices outside the family (L3); '
           'covariance blocks with irrational Cholesky factors')
ADJ_ASSUME = ['exact real arithmetic stands for IEEE double (rounding not modelled)',
              'SVD::svd() body replaced by a contract stub installing exact factors; tail of svd() and set_inv_W() taken from the source, '
              'machine-epsilon bisection replaced by its value 2^-53',
              'oracles (rational Gauss-Jordan inverse, null space) in harness/qla.h are trusted',
              'z3 4.8.12 (libz3) decides branch feasibility and assertions']

PROPS = {
 'C01': {
   'e1': [{'harness': 'adj', 'entry_points': ['GNU_gama::Adj::x/r/rtr/defect', 'AdjEnvelope/AdjCholDec/AdjGSO/AdjSVD::unknowns/residuals/sum_of_squares/defect/lindep',
                                               'Homogenization::run', 'Envelope::cholDec/solve', 'ICGS::icgs1/icgs2', 'SVD::solve/min_subset_x']}],
   'must_reach': ['C01', 'base'],
   'technique': 'symbolic execution of the real solver sources (scalar substitution double->term), z3 decides branches and optimality identities for every right-hand side',
   'bounds': ADJ_BOUNDS, 'outside': ADJ_OUT + '; the LocalNetwork entry point is covered by the network harness', 'assumptions': ADJ_ASSUME},
 'C02': {
   'e1': [{'harness': 'adj', 'entry_points': ['GNU_gama::Adj with set_algorithm(envelope|cholesky|gso|svd)']}],
   'must_reach': ['C02'],
   'technique': 'symbolic execution of all four algorithms on shared symbols; equality of results as solver-checked polynomial identities',
   'bounds': ADJ_BOUNDS, 'outside': ADJ_OUT, 'assumptions': ADJ_ASSUME},
 'C03': {
   'e1': [{'harness': 'adj', 'entry_points': ['Adj::q_xx/q_bb', 'AdjBase::q_xx/q_bb for the four solvers', 'Envelope::inverse', 'AdjEnvelope::q0_xx/T_row', 'ICGS::rowdot', 'SVD::q_xx/q_bb']}],
   'must_reach': ['C03', 'base'],
   'technique': 'symbolic execution; generalised-inverse identities against N=A\'PA computed by an exact rational oracle',
   'bounds': ADJ_BOUNDS, 'outside': ADJ_OUT + '; positive semi-definiteness is implied by QNQ=Q with N psd and not queried separately', 'assumptions': ADJ_ASSUME},
 'C04': {
   'e1': [{'harness': 'hist', 'entry_points': ['AdjEnvelope/AdjCholDec/AdjGSO/AdjSVD: unknowns, residuals, sum_of_squares, defect, q_xx, q_bb, q0_xx, lindep, min_x(), min_x(n,idx), reset',
                                                'Adj: x, r, rtr, defect, q_xx, q_bb, set_algorithm'], 'budget_s': {'quick': 400, 'thorough': 3000}}],
   'must_reach': ['hist', 'hist-adj'],
   'technique': 'symbolic execution of every bounded API call sequence on the real solver objects; last answer equals a fresh object\'s answer as a solver-checked identity in the symbolic right-hand side',
   'bounds': 'skeletons lev4-datum, lev5-free, two-components, dep-cols (+vec2d-free, band-6x5, zero-col thorough) and one svd-family matrix; all call sequences of length <= 3 (quick) / <= 4 (thorough): '
             'first call from the full operation table (17-19 operations incl. all index pairs listed in harness/h_hist.cpp), later calls from the reduced table (11-13 operations); two regularisation subsets + all; right-hand side symbolic',
   'outside': 'longer histories at object level (the cache step itself is covered for histories of any length by the CBMC kernel mtf_step); LocalNetwork histories; ' + ADJ_OUT,
   'assumptions': ADJ_ASSUME},
}
