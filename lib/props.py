"""Property table: which harnesses / kernels decide which property, with the stated bounds."""

ADJ_BOUNDS = ('design matrices: the fixed skeleton list of harness/adjcommon.h (12 patterns: levelling, vector, dense, banded, '
              'disconnected, dependent columns, empty row, zero column, single column, zero redundancy) plus VERIF_SEED-dependent random sparse '
              'integer matrices (m<=9, n<=5, planted defect<=2), each with 3 (quick) / 6 (thorough) covariance layouts (1x1 blocks, diagonal block, '
              'banded width 1/2, full) built as L L\' with rational L, all/explicit regularisation subsets (<=4 quick, <=8 thorough); right-hand side fully '
              'symbolic (unbounded reals). svd only on matrices constructed with a rational decomposition (Cayley factors).')
ADJ_OUT = ('rounding (exact arithmetic, L1); the Golub-Reinsch iteration itself (contract stub, L2); design matrices outside the family (L3); '
           'covariance blocks with irrational Cholesky factors')
NET_BOUNDS = ('networks: the generated family of harness/h_net.cpp/netgen.h -- levelling networks (4-6 points, loops, 1-3 clusters, stdev per observation / diagonal / banded width 1-2 cov-mat), '
              '3D vector networks (3-4 points, block or neighbour correlations), observed coordinates, fixed / free / constrained points; coordinates and covariances exactly representable decimals; '
              'every observed value = generating value + symbolic error in [-0.1 m, 0.1 m] (one unbounded error in C14); algorithms envelope, cholesky, gso (svd needs an exact decomposition and is covered at Adj level only)')
NET_OUT = ('nonlinear observation types (distances, directions, angles, zenith angles) at network level; svd at network level; rounding; the printing part of GeneralParameters(); '
           'networks outside the generated family')
NET_ASSUME = ['exact real arithmetic stands for IEEE double', 'observed values are injected after parsing through Observation::set_value (the parser sees the generating values)',
              'oracle: exact bordered-normal-equation solution in rational arithmetic (harness/netcommon.h), trusted', 'z3 4.8.12 decides branches (abs-term tests, huge-covariance tests, approximate-coordinate medians) and assertions']
NET_ENTRY = ['GKFparser', 'LocalNetwork::revision_points/revision_observations/project_equations/prepareProjectEquations/vyrovnani_/null_space/remove_huge_abs_terms/refine_adjustment', 'LocalLinearization (linear types)',
             'Cluster::activeCov/update', 'AdjEnvelope/AdjCholDec/AdjGSO via LocalNetwork', 'Acord2 (mode 2 of C06)']
ADJ_ASSUME = ['exact real arithmetic stands for IEEE double (rounding not modelled)',
              'SVD::svd() body replaced by a contract stub installing exact factors; tail of svd() and set_inv_W() taken from the source, '
              'machine-epsilon bisection replaced by its value 2^-53',
              'oracles (rational Gauss-Jordan inverse, null space) in harness/qla.h are trusted',
              'z3 4.8.12 (libz3) decides branch feasibility and assertions']

E2_ASSUME = ['clang-14 -O1 IR is a faithful compilation of the wrapper TU (the wrapper includes the real header unmodified)', 'ir2c.py translation (validated each run against the g++ build on 2e5 inputs)',
             'CBMC 6.11 with --unwinding-assertions --pointer-overflow-check --undefined-shift-check --signed-overflow-check --no-malloc-may-fail; C-locale isspace model', 'witness twin of every harness must fail']
K_INTFLOAT = {'name': 'intfloat', 'cpp': 'k_intfloat.cpp', 'harness': 'k_intfloat_h.c', 'diff': 'k_intfloat_diff.c',
              'funcs': [{'fn': 'h_is_float', 'unwind': {'quick': 9, 'thorough': 11}, 'defs': {'quick': ['-DNBYTES=6'], 'thorough': ['-DNBYTES=8']}},
                        {'fn': 'h_is_integer', 'unwind': {'quick': 9, 'thorough': 11}, 'defs': {'quick': ['-DNBYTES=6'], 'thorough': ['-DNBYTES=8']}},
                        {'fn': 'h_trim', 'unwind': {'quick': 9, 'thorough': 11}, 'defs': {'quick': ['-DNBYTES=6'], 'thorough': ['-DNBYTES=8']}}]}
K_MATIDX_FUNCS = [{'fn': 'h_symmat', 'unwind': 4, 'defs': {'quick': ['-DDMAX=10'], 'thorough': ['-DDMAX=48']}}, {'fn': 'h_covmat', 'unwind': 4, 'defs': {'quick': ['-DDMAX=10'], 'thorough': ['-DDMAX=32']}},
                  {'fn': 'h_bandmat', 'unwind': 4, 'defs': {'quick': ['-DDMAX=10'], 'thorough': ['-DDMAX=32']}}]
K_MATIDX = {'name': 'matidx', 'cpp': 'k_matidx.cpp', 'harness': 'k_matidx_h.c', 'clang_flags': [], 'funcs': K_MATIDX_FUNCS}
K_MTF = {'name': 'mtf', 'cfile': 'matidx', 'cpp': 'k_matidx.cpp', 'harness': 'k_matidx_h.c', 'clang_flags': [], 'funcs': [{'fn': 'h_mtf_step', 'unwind': 5}]}
PROPS = {
 'C01': {
   'e1': [{'harness': 'adj', 'entry_points': ['GNU_gama::Adj::x/r/rtr/defect', 'AdjEnvelope/AdjCholDec/AdjGSO/AdjSVD::unknowns/residuals/sum_of_squares/defect/lindep',
                                               'Homogenization::run', 'Envelope::cholDec/solve', 'ICGS::icgs1/icgs2', 'SVD::solve/min_subset_x']},
          {'harness': 'net', 'entry_points': NET_ENTRY}],
   'must_reach': ['C01', 'base', 'net-compare'],
   'technique': 'symbolic execution of the real solver sources (scalar substitution double->term), z3 decides branches and optimality identities for every right-hand side',
   'bounds': ADJ_BOUNDS + ' Network level: ' + NET_BOUNDS, 'outside': ADJ_OUT + '; ' + NET_OUT, 'assumptions': ADJ_ASSUME + NET_ASSUME},
 'C02': {
   'e1': [{'harness': 'adj', 'entry_points': ['GNU_gama::Adj with set_algorithm(envelope|cholesky|gso|svd)']}, {'harness': 'net', 'entry_points': NET_ENTRY}],
   'must_reach': ['C02', 'net-c02'],
   'technique': 'symbolic execution of all four algorithms on shared symbols; equality of results as solver-checked polynomial identities',
   'bounds': ADJ_BOUNDS, 'outside': ADJ_OUT, 'assumptions': ADJ_ASSUME},
 'C03': {
   'e1': [{'harness': 'adj', 'entry_points': ['Adj::q_xx/q_bb', 'AdjBase::q_xx/q_bb for the four solvers', 'Envelope::inverse', 'AdjEnvelope::q0_xx/T_row', 'ICGS::rowdot', 'SVD::q_xx/q_bb']}, {'harness': 'net', 'entry_points': NET_ENTRY + ['LocalNetwork::qxx/qbb']}],
   'must_reach': ['C03', 'base', 'net-compare'],
   'technique': 'symbolic execution; generalised-inverse identities against N=A\'PA computed by an exact rational oracle',
   'bounds': ADJ_BOUNDS, 'outside': ADJ_OUT + '; positive semi-definiteness is implied by QNQ=Q with N psd and not queried separately', 'assumptions': ADJ_ASSUME},
 'C04': {
   'e1': [{'harness': 'hist', 'entry_points': ['AdjEnvelope/AdjCholDec/AdjGSO/AdjSVD: unknowns, residuals, sum_of_squares, defect, q_xx, q_bb, q0_xx, lindep, min_x(), min_x(n,idx), reset',
                                                'Adj: x, r, rtr, defect, q_xx, q_bb, set_algorithm'], 'budget_s': {'quick': 400, 'thorough': 3000}},
          {'harness': 'net', 'entry_points': ['LocalNetwork: solve, residuals, trans_VWV, degrees_of_freedom, m_0, qxx, qbb, stdev_obs, wcoef_res, project_equations(A,b,w), null_space, update_points/observations/residuals/adjustment, set_algorithm']}],
   'e2': [K_MTF],
   'must_reach': ['hist', 'hist-adj', 'net-c04'],
   'technique': 'symbolic execution of every bounded API call sequence on the real solver objects; last answer equals a fresh object\'s answer as a solver-checked identity in the symbolic right-hand side',
   'bounds': 'skeletons lev4-datum, lev5-free, two-components, dep-cols (+vec2d-free, band-6x5, zero-col thorough) and one svd-family matrix; all call sequences of length <= 3 (quick) / <= 4 (thorough): '
             'first call from the full operation table (17-19 operations incl. all index pairs listed in harness/h_hist.cpp), later calls from the reduced table (11-13 operations); two regularisation subsets + all; right-hand side symbolic',
   'outside': 'longer histories at object level (the cache step itself is covered for histories of any length by the CBMC kernel mtf_step); LocalNetwork histories; ' + ADJ_OUT,
   'assumptions': ADJ_ASSUME},

 'C06': {'e1': [{'harness': 'net', 'entry_points': NET_ENTRY}], 'must_reach': ['net-c06'],
   'technique': 'symbolic execution of parser+network+solver on error-free observations; adjusted = generating coordinates and zero residuals as solver-checked identities, approximate coordinates symbolic (perturbed) or computed by the real Acord2',
   'bounds': NET_BOUNDS + '; approximate coordinates: exact / perturbed by symbolic offsets in [-0.5 m, 0.5 m] / omitted for free points', 'outside': NET_OUT + '; polar, traverse, intersection strategies of Acord2 (need nonlinear types)', 'assumptions': NET_ASSUME},
 'C07': {'e1': [{'harness': 'net', 'entry_points': NET_ENTRY}], 'must_reach': ['net-c07'],
   'technique': 'two networks built from the same symbols inside one symbolic exploration (translation by a symbolic vector, reversed order, renamed non-ASCII ids, swapped ends); results compared as terms by the solver',
   'bounds': NET_BOUNDS, 'outside': NET_OUT + '; circle rotation, deg<->gon and axes/handedness variants (need angular types)', 'assumptions': NET_ASSUME},
 'C08': {'e1': [{'harness': 'net', 'entry_points': NET_ENTRY}], 'must_reach': ['net-c08'],
   'technique': 'symbolic execution of the same free network under 4-5 constraint sets; invariants compared across runs and G_S\'x_S = 0 against the exact null space',
   'bounds': 'free levelling networks (defect 1, 5 points, 3 covariance styles) and free 3D vector networks (defect 3, 4 points), 4-5 constraint sets each, 3 algorithms, symbolic observation errors', 'outside': NET_OUT + '; rotational/scale defects (2D distance/direction networks)', 'assumptions': NET_ASSUME},
 'C10': {'e1': [{'harness': 'net', 'entry_points': NET_ENTRY + ['GKFparser::finish_cov and friends']}, {'harness': 'adj', 'entry_points': ['Adj::choldec/forwardSubstitution', 'BlockDiagonal::cholDec', 'Homogenization::run']}],
   'must_reach': ['net-c10', 'net-c10p', 'net-c10r', 'C01'],
   'technique': 'symbolic execution: cov-mat vs per-observation stdev, every subset (<=3) of passive observations of a banded cluster against the exact sub-matrix oracle, dense vs sparse weighting paths compared through the algorithms; malformed matrices through the real parser',
   'bounds': NET_BOUNDS + '; clusters of 7 height differences with band 1..3, passive subsets of size <= 3 (quick: a quarter of them per algorithm); malformed: wrong dim, negative, zero variance, indefinite', 'outside': NET_OUT + '; fully symbolic covariance entries', 'assumptions': NET_ASSUME + ADJ_ASSUME},
 'C14': {'e1': [{'harness': 'net', 'entry_points': NET_ENTRY + ['LocalNetwork::test_abs_term', 'TestAbsTermVisitor']}], 'must_reach': ['net-c14-kept', 'net-c14-rejected'],
   'technique': 'symbolic execution with one unbounded symbolic gross error: the solver splits the tol-abs threshold into the kept and the rejected path, each compared with the exact oracle with/without that observation',
   'bounds': NET_BOUNDS + '; fixed-datum levelling and vector networks, every third (quick) / every (thorough) observation as target', 'outside': NET_OUT + '; text sections of the report; structural removals other than those arising in C20', 'assumptions': NET_ASSUME},
 'C19': {'e1': [{'harness': 'g3', 'entry_points': ['DataParser (g3-model: points with geoid, status records, vector / xyz with cov-mat, distance, hdiff, height)', 'g3::Model::update_linearization / update_adjustment (init, revision, linearization of Vector, XYZ, Distance, HeightDiff, Height)',
                                                   'g3::Point n-e-u parametrisation, x/y/z_transform, model_height', 'Adj (envelope, cholesky, gso) through g3::Model', 'Model::write_xml_adjustment_input_data -> DataParser (adj-input-data) -> Adj']}],
   'must_reach': ['g3', 'g3-consistent', 'g3b', 'g3b-consistent'],
   'technique': 'symbolic execution of gama-g3\'s model on generated ECEF networks with symbolic observation errors; the design matrix, right-hand sides and weights are compared with those stated from the observation equations in the harness (gradient in X,Y,Z projected on the local n,e,u frame), the solution with the weighted normal equations, the exact null space (defect, redundancy), across algorithms, across record orders and through the project-equation dump',
   'bounds': 'networks of 4 points on the equator at longitudes 0/90/180/270 deg (the north-east-up rotation has entries 0/+-1 there and the ellipsoidal height is the radius minus the semi-major axis, so the linearisation is exact), heights 10..40 m, geoid heights 0.5..2 m; (a) 5-6 GNSS vectors with full 3x3 covariances, status patterns faaa/fafa/cccc (thorough: + acca, ffaa); (b) mixed: 4 vectors, 1-2 observed XYZ with covariances, 4 space distances (coefficients with square roots), 3 height differences, 2 heights, patterns faaa/ffaa (thorough: + faca); symbolic errors |e| <= 1 cm on every component; algorithms envelope, cholesky, gso; (c) general position: 4 points given as B,L,H at latitudes 0/+-45 deg and longitudes 0/45/90/135 deg (sine and cosine are atoms, the radius of curvature a radical), 3 vectors, 1 observed XYZ, 3 distances with instrument / target heights, a height difference, a height: X,Y,Z from B,L,H, every coefficient and right-hand side against the stated equations (symbolic errors), zero corrections and residuals for error-free observations',
   'outside': 'points at latitudes / longitudes whose sine and cosine are not expressible (limit L4); at general position the solution with symbolic errors (no normal form over sin/cos/sqrt atoms; z3 unknown on the normal equations after 260 s) and points given by X,Y,Z (xyz2blh iteration); angles, azimuths and zenith angles of gama-g3; the SVD algorithm inside g3; the ellipsoidal part of the result XML (xyz2blh iteration forks on symbolic coordinates: no verdict in 3 min) - adjusted X,Y,Z are taken by the first three statements of Point::write_xml replicated in the harness; the dump compared to 1e-6 mm when coefficients are irrational (written with 16 digits); src/gama-g3.cpp option handling',
   'claim': 'Partial claim: networks at the special geometry where the model is exact, with vectors, observed coordinates, distances, height differences and heights. There the equations equal the stated ones, the adjusted coordinates reproduce the generating ones for consistent observations, satisfy the weighted normal equations for symbolic errors, agree between the three algorithms and between record orders, redundancy/defect equal the exact values, and the project-equation dump adjusted by Adj gives the same unknowns.',
   'assumptions': ['exact real arithmetic stands for IEEE double', 'private members of g3::Model/g3::Point are read by the harness (#define private public on the g3 headers in the harness TU only)', 'observed values are perturbed after parsing through set_dxyz / set_xyz / Value::set',
                   'atan2/sin/cos contract of the symbolic engine at multiples of pi/2', 'oracles (rational inverse, null space, closed-form gradients) in the harness are trusted']},
 'C20': {'e1': [{'harness': 'net', 'entry_points': NET_ENTRY + ['LocalNetwork::null_space', 'AdjBase::lindep']}, {'harness': 'adj', 'entry_points': ['AdjBase::lindep/defect for the four solvers', 'BadRegularization paths']}],
   'must_reach': ['net-c20', 'base'],
   'technique': 'symbolic execution of ill-posed networks under all algorithms in one exploration (removed points, refusal, results compared); dependent-unknown flags checked against exact rank computations',
   'bounds': '7 ill-posed levelling/vector networks (no datum, two components with one datum, dangling part, all fixed) x 3 algorithms; Adj level: ' + ADJ_BOUNDS, 'outside': NET_OUT, 'assumptions': NET_ASSUME + ADJ_ASSUME},
 'C09': {'e1': [{'harness': 'net', 'entry_points': NET_ENTRY + ['LocalNetwork::m_0/m_0_aposteriori_value/degrees_of_freedom/conf_int_coef/unknown_stdev/stdev_obs/wcoef_res/weight_obs/std_error_ellipse'], 'budget_s': {'quick': 500, 'thorough': 2400}}],
   'must_reach': ['net-c09'],
   'technique': 'symbolic execution of the statistics members on symbolic adjustments; each documented relation (dof, m0, standard deviations, residual cofactors, ellipse eigen-relations through the atan2 contract, sigma-apr scaling) is a solver-checked identity against the exact oracle',
   'bounds': NET_BOUNDS + '; plus networks with dof 0, 1, 2; both sigma-act settings; conf-pr 0.90/0.95; second sigma-apr 2.5', 'outside': NET_OUT + '; accuracy of Normal/Student (uninterpreted in the symbolic build, C17); printed fields; order a>=b of ellipse axes when m0 is symbolic',
   'assumptions': NET_ASSUME + ['GNU_gama::Normal/Student/Chi_square are uninterpreted functions in the symbolic build (symx/statan_stub.cpp)']},
 'C05': {'e1': [{'harness': 'lin', 'entry_points': ['LocalLinearization::direction/distance/angle/azimuth/s_distance/z_angle/h_diff/x/y/z/xdiff/ydiff/zdiff', 'bearing_distance', 'Observation::accept', 'StandPoint orientation/index'], 'budget_s': {'quick': 400, 'thorough': 1500}},
          {'harness': 'net', 'entry_points': ['GKFparser (axes-xy, angles)', 'LocalNetwork::remove_inconsistency / change_y_signs_for_inconsistent_system_', 'Acord2 (orientations)', 'LocalNetwork::project_equations(A,b,w)', 'PointData::xNorthAngle']}],
   'must_reach': ['lin-distance', 'lin-direction', 'lin-azimuth', 'lin-angle', 'lin-sdistance', 'lin-zangle', 'lin-linear', 'net-c05'],
   'technique': 'symbolic execution of LocalLinearization on real point/observation/cluster objects with fully symbolic coordinates, observed value and orientation; coefficients compared with the Jacobian stated from the defining relation as nonlinear real-arithmetic queries (z3 nlsat), wrap-around loops explored by solver-decided forks',
   'bounds': 'every observation type; every fixed/free(/constrained) mix of the 2-3 points (quick: constrained only on the diagonal; slope types 7 of 16 mixes); coordinates in [-1e4,1e4] (heights [-1e3,1e3]) with points at least 0.1 m apart; observed angle and orientation in [0,2pi) (<= 3 iterations of each normalisation loop); '
             'atan2/sin/cos through their contract (pi := M_PI literal), sqrt exact; network level: one 6-point 3D network with all 13 observation types in all 8 axes orientations x 2 angle senses (thorough: 3 status variants), '
             'equations of project_equations(A,b,w) equal entry by entry those of the same network written in the reference frame (ne, left-handed; every y mirrored iff the combination is inconsistent; azimuth reduced by the azimuth of the x axis): concrete geometry, symbolic length-like observed values',
   'outside': 'network level with symbolic coordinates (the gross-error test on sqrt/acos terms gave no solver verdict in 10 min); acos inside z_angle\'s right-hand side (uninterpreted: only its argument and unit factor are checked); rounding of the unit constants 10*R2G and R2CC (taken as written in the source, value checked to 1e-9); points closer than 0.1 m',
   'assumptions': ['exact real arithmetic', 'libm contract for atan2/sin/cos/sqrt', 'closed forms of d(bearing)/d(coordinate) and d(zenith)/d(coordinate) written in the harness are the oracle (trusted)', 'z3 4.8.12 nlsat']},
 'C11': {'e2': [K_INTFLOAT],
   'technique': 'bounded model checking (CBMC) of the compiled leaf recognisers IsFloat/IsInteger/TrimWhiteSpaces/SkipWhiteSpaces on every byte buffer up to the bound: no access outside [b,e), termination, acceptance equals a reference grammar',
   'bounds': 'every byte string of length <= 6 (quick) / <= 8 (thorough), all 256 byte values; unwinding bound = length+3 with unwinding assertions',
   'outside': 'MOST of the property: termination and memory safety of expat, GKFparser, DataParser and the result readers on arbitrary byte strings, located diagnostics, chunked delivery (heap-backed containers and a 3000-line automaton: no verdict within reach of CBMC here, invisible to the scalar substitution); only the leaf recognisers in front of atof/atoi are decided',
   'claim': 'Partial claim: only the character-level numeric recognisers used by the parsers (CoreParser::toDouble/toIndex, deg2gon) are decided, by bounded model checking over all byte strings up to 6/8 bytes. The parser automata themselves are outside the reach of the technique (see level_note).',
   'assumptions': E2_ASSUME},
 'C15': {'e1': [{'harness': 'mat', 'entry_points': ['Mat/Vec/SymMat operators (+,-,*,trans,Square,Lower,Upper)', 'Mat::invert / inv', 'SymMat::cholDec/solve/invert', 'CovMat::cholDec/solve/operator*', 'BandMat::cholDec/solve/invBand/operator*', 'GSO::gso1/gso2', 'pinv (assembly; SVD by contract)', 'MemRep copy/move/assign/resize through Vec']}],
   'e2': [K_MATIDX],
   'must_reach': ['mat-algebra', 'mat-symmat', 'mat-invert', 'mat-invert-sym', 'mat-chol', 'chol-accepted', 'chol-rejected', 'mat-gso', 'mat-pinv', 'mat-memrep', 'mat-conform'],
   'technique': 'symbolic execution of the matvec templates with symbolic entries (polynomial identities decided by normal form + z3) and on concrete rational matrices with symbolic vectors against exact rational oracles; CBMC on the packed/banded index maps for all dimensions up to the bound',
   'bounds': 'algebra: all shapes up to 3x3x3 with fully symbolic entries; inverse: 12 (quick) / 36 (thorough) rational matrices n<=4 incl. zero leading pivots, plus a fully symbolic diagonally dominant 2x2; Cholesky variants: n<=5(6), band<=3; GSO 5x3/5x4 with defect 0..2; pinv 4x3 from rational Cayley factors; '
             'MemRep: every sequence of 3 operations {copy-assign, move-assign, copy-construct+assign, reset, write} over three vectors of sizes 0..3 (quick: a quarter of the first operations); conformance: all operand shapes 0..3; index maps (CBMC): dim<=10 (quick) / 48,32 (thorough), all bands, all index pairs',
   'outside': 'the Golub-Reinsch SVD itself and BandMat::eigenVal/triDiag (floating-point termination tests, L2); ill-conditioned real matrices (rounding, L1); memory safety of MemRep histories under CBMC (attempted: symbolic allocation sizes gave no verdict in 10 min; covered by the symbolic harness, where a double free aborts the path and is replayed)',
   'assumptions': ADJ_ASSUME + E2_ASSUME + ['legacy GSO: tolerance preset (1e-8) because its machine-epsilon bisection does not terminate in exact arithmetic']},
 'C16': {'e1': [{'harness': 'mat', 'entry_points': ['SparseMatrix::new_row/add_element/replicate/transpose', 'SparseMatrixGraph, ::connected', 'ReverseCuthillMcKee', 'Envelope::set/cholDec/solve/inverse/defect', 'BlockDiagonal::cholDec', 'Homogenization']}],
   'must_reach': ['mat-sparse', 'mat-envelope'],
   'technique': 'symbolic execution of the sparse kernels with symbolic entry values on enumerated sparsity patterns; envelope factorisation, solves and sparse inverse compared with the exact dense results of a rational oracle for symbolic right-hand sides',
   'bounds': 'sparsity patterns: the 12 fixed skeletons (empty row, zero column, single column, banded, disconnected, dependent columns) + 8 (quick) / 30 (thorough) seeded random ones, m<=9, n<=6; 3 (6) covariance block layouts each; entry values and right-hand sides symbolic',
   'outside': 'memory safety of the sparse kernels under CBMC: attempted (ir2c/kernels/k_sparse*): 1x1 verifies in 12 s, 2x2 needs ~8 min -> not part of the registered check; connectivity/ordering are integer-only and therefore enumerated, not solver-quantified; graphs with more than 6 nodes',
   'assumptions': ADJ_ASSUME},
 'C18': {'e1': [{'harness': 'geo', 'entry_points': ['GNU_gama::gon2deg', 'dms2rad', 'rad2dms', 'GNU_gama::local::bearing_distance']}], 'e2': [K_INTFLOAT],
   'must_reach': ['geo-gon2deg', 'geo-deg2gon', 'geo-near', 'geo-dms', 'geo-bearing', 'geo-cut'],
   'technique': 'symbolic execution of the angle conversions with the angle symbolic inside windows around every field boundary (integer truncations forked by the solver; the formatted seconds field travels as a term through the real iostream formatting) and of bearing_distance on symbolic point pairs (atan2 contract); CBMC on the literal recognisers',
   'bounds': 'gon2deg: 6 windows (0, seconds carry, minute carry, 100 gon, negative, generic) x sign modes 0..3 x precision 1..2 (1..4 thorough); dms2rad/rad2dms: 5 windows, tolerance 1e-9 for the round trip; bearing_distance: all point pairs with coordinates in [-1e5,1e5] at least 0.1 m apart plus the 1e-6 cut; recognisers: all byte strings <= 6 (8) bytes',
   'outside': 'Ellipsoid::blh2xyz/xyz2blh round trip and its documented bound (Bowring formula with sin/cos/atan of non-special arguments: transcendental, L4), the ellipsoid table, deg2gon (parses with istringstream: text, L5), latlong string formatting',
   'assumptions': ['exact real arithmetic; printed field = value rounded to the stream precision (documented contract of fixed formatting)', 'libm contract for atan2/sin/cos/sqrt'] + E2_ASSUME},
 'C13': {'e1': [{'harness': 'net', 'entry_points': NET_ENTRY + ['LocalNetwork::export_xml', 'updated_xml_covmat', 'DisplayObservationVisitor', 'to_xmlstr', 'GKFparser on the exported text']}], 'must_reach': ['net-c13'],
   'technique': 'symbolic execution of adjust -> export_xml -> real GKFparser -> adjust: symbolic numbers travel through the real writer and parser as reserved literals that read back as the same terms; values, status, results and the re-exported text compared by the solver / natively',
   'bounds': NET_BOUNDS + '; 2 (quick) / 3 (thorough) export-adjust rounds; one algorithm per network (rotating)',
   'outside': NET_OUT + '; attributes of nonlinear types (from_dh/to_dh/bs_dh/fs_dh, dist=), degree output, extern attributes; constants are compared as re-read (the writer\'s 17-digit precision is exercised natively); for points with observed coordinates the approximate values are compared from the second round on (the parser takes the observed ones, by design)',
   'assumptions': NET_ASSUME + ['a symbolic number is printed as a reserved 19-digit literal, whatever the stream precision, and mapped back when atof/operator>> returns that exact double']},
 'C12': {'e1': [{'harness': 'net', 'entry_points': NET_ENTRY + ['LocalNetworkXML::write (all sections)', 'LocalNetworkAdjustmentResults::read_xml / Parser', 'str2xml on the description']}], 'must_reach': ['net-c12'],
   'claim': 'Partial claim: the adjustment XML written by the real LocalNetworkXML for a symbolic adjustment is read back by the real LocalNetworkAdjustmentResults parser, and every numeric field (coordinates, observations, standard deviations, statistics, covariance band for cov-band -1,0,1,2,3) equals the adjustment / the exact oracle as a term (symbolic numbers) or to the printed precision (constants). HTML/text/Octave/SVG writers, identifier escaping and the consumer tools are outside.',
   'technique': 'symbolic execution of adjust -> LocalNetworkXML::write -> LocalNetworkAdjustmentResults::read_xml with symbolic numbers carried through the real writer and reader as reserved literals; fields compared by the solver against the adjustment and the exact oracle',
   'bounds': NET_BOUNDS + '; a priori reference deviation, observation errors within +-0.01 mm (so that the writer\'s outlier tests do not fork), cov-band in {-1,0,1,2,3} (2 per network quick, all thorough)',
   'outside': NET_OUT + '; HTML, text, Octave, SVG and SQL writers and read_html; escaping of identifiers (ids are written raw); compare-xyz and gama-local-deformation; the a posteriori setting in the writer (each outlier comparison is a 15 s nonlinear query)',
   'assumptions': NET_ASSUME + ['Normal((1-p)/2) uninterpreted but assumed within [1.9, 2.0] for p = 0.95', 'a symbolic number is printed as a reserved literal whatever the stream precision']},
}

# ---- plane networks (harness net2d) join the network-level properties ------------------------------------
NET2D = {'harness': 'net2d', 'entry_points': ['GKFparser (obs: direction, distance, angle)', 'Acord2 / Orientation (approximate orientations and coordinates)',
                                             'LocalLinearization::direction/distance/angle via LocalNetwork::project_equations', 'LocalNetwork::vyrovnani_ / null_space',
                                             'AdjEnvelope/AdjCholDec/AdjGSO via LocalNetwork'], 'budget_s': {'quick': 900, 'thorough': 3000}}
NET2D_BOUNDS = ('; plane networks (harness net2d): 5 points (rectangle 400 x 300 m and its centre: every distance rational, so the linearised system is exact), '
                '18-24 directions in 4-5 sets, distances, angles; fixed/free/constrained patterns incl. free networks of defect 3 (with distances) and 4 (directions only); '
                'symbolic errors |e| <= 1e-4 rad / 1 cm on every observation, the errors of one direction set in increasing order; first linearised adjustment only')
NET2D_OUT = '; plane networks: re-linearisation iterations (TestLinearization on symbolic coordinates needs square roots of symbolic terms), other geometries (irrational distances: constants with many radical atoms), direction errors in another order within a set'
for _pid, _site in {'C01': 'net2d-oracle', 'C02': 'net2d-oracle', 'C03': 'net2d-oracle', 'C05': 'net2d-oracle', 'C06': 'net2d-consistent', 'C07': 'net2d-equiv', 'C08': 'net2d-datum'}.items():
    PROPS[_pid]['e1'].append(dict(NET2D)); PROPS[_pid]['must_reach'].append(_site)
    PROPS[_pid]['bounds'] = PROPS[_pid]['bounds'] + NET2D_BOUNDS
    PROPS[_pid]['outside'] = PROPS[_pid]['outside'] + NET2D_OUT
for _pid, _site in {'C09': 'net2d-stats', 'C20': 'net2d-illposed'}.items():
    PROPS[_pid]['e1'].append(dict(NET2D)); PROPS[_pid]['must_reach'].append(_site)
    PROPS[_pid]['bounds'] = PROPS[_pid]['bounds'] + NET2D_BOUNDS
    PROPS[_pid]['outside'] = PROPS[_pid]['outside'] + NET2D_OUT + ('; ill-posed plane networks whose point-removal loop reaches singular_coords() with an all-zero column (0/0 compared as NaN)' if _pid == 'C20' else '')

# ---- spatial polar networks with instrument / target heights (harness net3d) -----------------------------
NET3D = {'harness': 'net3d', 'entry_points': ['GKFparser (from_dh, to_dh, s-distance, z-angle, direction, dh)', 'Acord2', 'refine_obsdh_reductions (reductions of slope distances and zenith angles)',
                                             'LocalLinearization::s_distance/z_angle/direction/h_diff via LocalNetwork::project_equations', 'AdjEnvelope/AdjCholDec/AdjGSO via LocalNetwork'], 'budget_s': {'quick': 600, 'thorough': 1800}}
NET3D_BOUNDS = ('; spatial polar networks (harness net3d): one station (optionally set up twice with different circle zero and instrument height), 4 targets at offsets with rational horizontal and slope distances, '
                'one of them fixed, directions + slope distances + zenith angles + 4 height differences, with and without instrument / target heights; error-free (C06) or symbolic errors with the errors of a direction set in increasing order (C01, C02); first linearised adjustment only')
NET3D_OUT = '; spatial networks: re-linearisation iterations; an independent oracle for their design matrix (C01 there uses the equations gama hands out)'
for _pid, _site in {'C01': 'net3d-agree', 'C02': 'net3d-agree', 'C06': 'net3d-consistent'}.items():
    PROPS[_pid]['e1'].append(dict(NET3D)); PROPS[_pid]['must_reach'].append(_site)
    PROPS[_pid]['bounds'] = PROPS[_pid]['bounds'] + NET3D_BOUNDS
    PROPS[_pid]['outside'] = PROPS[_pid]['outside'] + NET3D_OUT
PROPS['C13']['e1'].append(dict(NET3D, entry_points=['LocalNetwork::export_xml', 'DisplayObservationVisitor', 'GKFparser (obs, direction, s-distance, z-angle, distance, angle, azimuth, dh; from_dh/to_dh/bs_dh/fs_dh/dist)'])); PROPS['C13']['must_reach'].append('net3d-export')
PROPS['C13']['bounds'] = PROPS['C13']['bounds'] + '; description part on a station with every observation type of <obs> (direction, s-distance, z-angle, distance, angle, azimuth) and two height differences (stdev / dist): observed values and the four instrument / target heights symbolic (heights in [-3, 3] m, any sign, zero included), two export rounds, no adjustment'
PROPS['C13']['outside'] = PROPS['C13']['outside'] + '; re-adjustment of exported plane / spatial networks (section 10 of DESIGN.md); degrees (angles="360") in the description part'
PROPS['C14']['e1'].append(dict(NET2D)); PROPS['C14']['must_reach'].append('net2d-outlier')
PROPS['C14']['bounds'] = PROPS['C14']['bounds'] + '; plane networks (net2d/outlier): one observation (direction, distance or angle; every 5th quick, every 2nd thorough) with an extra symbolic gross error of +-3 m / +-0.01 rad around tol-abs = 1000: both outcomes explored, results against the oracle with / without the observation'

# the svd contract stub is validated natively on every Adj-level matrix (see check: native validation of the SVD contract)
for _pid in ('C01', 'C02'):
    PROPS[_pid]['native_svd'] = True
    PROPS[_pid]['assumptions'] = list(PROPS[_pid]['assumptions']) + ['native validation: the real SVD<double> iteration is run on every adj/* matrix with one numeric right-hand side and the svd assertions are evaluated in doubles (tolerance 1e-6); this is a concrete run per matrix, not a solver verdict']
PROPS['C12']['e1'].append(dict(NET2D)); PROPS['C12']['must_reach'].append('net2d-xml')
PROPS['C12']['bounds'] = PROPS['C12']['bounds'] + '; plane networks (net2d/xml): 4 networks with directions, distances, angles: adjusted points, orientation shifts (approximate and adjusted, wrapped to [0,400) gon), observed and adjusted directions / angles / distances, qrr, counts and sum of squares read back; errors below 1e-7 rad / 0.01 mm'

PROPS['C06']['bounds'] = PROPS['C06']['bounds'] + '; nearly horizontal sights whose height difference changes sign with the instrument / target heights; a height difference hanging on a trigonometric point and a vector between two points fixed by polar shots (heights / positions found in two rounds of the strategies); a spatial traverse between fixed points with a different instrument / target height on every sight (0.1-2 m), coordinates omitted; spatial networks also with omitted coordinates (Acord2) for every spec, incl. instrument 1 m / prism poles 2.5-3.25 m and a free station (coordinates and height omitted) surveying two new points; plane strategies of Acord2 with omitted coordinates in integer geometries with rational distances: traverse between fixed points oriented at both ends / open / listed backwards, forward intersection of directions, intersection of distances, polar method from a station oriented by one fixed target; resections by directions with a target pair in both orders (closed round, two rounds in opposite order); resections through Acord2: three hand-made ones and a fixed family of 24 (thorough 60) pseudo-random two-angle resections in integer geometries (general position; the circles of the Angle_angle construction cut at sin >= 0.11, inside what Acord2 documents as resolvable; constants compared numerically at 512 bits)'
PROPS['C12']['bounds'] = PROPS['C12']['bounds'] + '; two of the plane networks also in the inconsistent frame "en"'

PROPS['C08']['bounds'] = PROPS['C08']['bounds'] + '; the free vector network also with datum sets of mixed status (height constrained with free position, "xyZ", and the reverse, "XYz")'
PROPS['C04']['bounds'] = PROPS['C04']['bounds'] + '; network histories also on the free vector network (both ends of its first vector are new points, so unknown indexes of x and y of a point are not adjacent)'
