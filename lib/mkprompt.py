#!/usr/bin/env python3
"""mkprompt.py <PROP> <worktree> [hint files...] : prompt for an independent sub-agent that seeds a property-breaking change.
The prompt contains only the text of the property (title, statement, quantifier) and build/test instructions."""
import json, sys
pid, wt = sys.argv[1], sys.argv[2]
hints = sys.argv[3] if len(sys.argv) > 3 else ''
prefer = sys.argv[4] if len(sys.argv) > 4 else ''
for l in open('/verif/properties.jsonl'):
    p = json.loads(l)
    if p['id'] == pid: break
print(f"""You are helping to test a verification suite by creating a realistic, subtle regression ("seeded change") in an open-source C++ code base. You work ONLY inside the git worktree {wt} (a checkout of GNU Gama: C++ least-squares adjustment of geodetic networks; sources under lib/, programs under src/, tests under tests/). Do not touch /repo or /verif and do not look into /verif.

The property that your change must BREAK:

  Title: {p['title']}
  Statement: {p['statement']}
  Quantified over: {p['quantifier']['text']}

Task:
1. Read the relevant code in {wt} (hints: {hints}).
2. Make ONE small source change (a few lines, in lib/ or src/) that breaks the property above, while the project still compiles and the existing test suite still passes. The change should look like a plausible developer mistake (wrong index, off-by-one, stale cache, missing invalidation, wrong sign in a rarely used branch, mishandled special case ...). {prefer} It must need something SPECIFIC to manifest -- a particular multi-step sequence of operations, an unusual input (e.g. correlated observations with some excluded, a rank-deficient system with a particular regularisation subset, a rarely used observation type or quadrant), or two cooperating sites that each look fine alone -- NOT something ordinary use would expose at once. Do not make it depend on magic constants in an artificial way.
3. Build and run the existing tests to show they still pass with your change:
     cmake -S {wt} -B {wt}/_b -G Ninja -DCMAKE_BUILD_TYPE=Release > /dev/null && cmake --build {wt}/_b 2>&1 | tail -3
     ctest --test-dir {wt}/_b -j1 --timeout 900 2>&1 | tail -5
   (a handful of tests named check_deformation_data_1_2_diff_* / gama_local_export_zoltan* can be order-flaky with -j>1; use -j1. All 510 tests pass on the unchanged tree with -j1.)
4. Write a demonstration: a small C++ program (compile with: g++ -std=c++17 -I{wt}/lib demo.cpp $(find {wt}/_b/CMakeFiles/libgama.dir -name '*.o') -lexpat -lsqlite3 -lyaml-cpp -o demo   -- or link fewer files if you only need headers) or a shell script driving {wt}/_b/gama-local (or {wt}/_b/gama-g3) on an input file you write, that FAILS (non-zero exit) with your change and PASSES (exit 0) without it. Put the commands into {wt}/SEED/run_demo.sh (exit code = result; it must work when called as `sh run_demo.sh` from the SEED directory after a rebuild of {wt}/_b). Verify both, without and with the change (rebuild in between): save the change with `git -C {wt} diff -- lib src > {wt}/SEED/patch.diff`, take it out with `git -C {wt} apply -R {wt}/SEED/patch.diff` and put it back with `git -C {wt} apply {wt}/SEED/patch.diff`. NEVER use `git stash` (the stash is shared with other worktrees).
5. Leave in {wt}/SEED/ : patch.diff (output of `git -C {wt} diff -- lib src`), the demonstration files, run_demo.sh, and notes.txt saying what the change is, what it needs in order to manifest, and the exact commands you ran with their results.

Report back briefly: the diff, what is needed to manifest it, and the demo pass/fail evidence. If your first idea turns out to break existing tests, try a different, more specific one.""")
