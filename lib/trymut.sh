#!/bin/bash
# usage: trymut.sh <patch> <prop> [<prop> ...] : apply a seeded change to /repo, run the checks, undo it
patch=$(readlink -f "$1"); shift
git -C /repo apply "$patch" || { echo "patch does not apply"; exit 2; }
for p in "$@"; do echo "== $p"; /verif/check $p --tier quick 2>&1 | tail -4 | cut -c1-300; done
git -C /repo checkout -- .
git -C /repo status --short | head -3
