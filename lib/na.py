"""Properties not claimed, with the reason (kept current; see DESIGN.md section 9)."""
_NOTYET = 'check not built yet in this round (planned, see DESIGN.md section 4); no claim is made'
NA = {


 'C17': 'accuracy and monotonicity of quantile approximations against transcendental functions (normal, Student, chi-square) cannot be expressed to z3/cvc5/CBMC; bit-precise floating point through log/exp/pow has no model here (DESIGN.md section 9)',
}
