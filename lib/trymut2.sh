#!/bin/bash
# usage: trymut2.sh <patch> <prop> [<prop> ...] : like trymut.sh, but in a scratch worktree of /repo with its own build directory,
# so that /repo itself is never touched (safe while another run reads /repo)
patch=$(readlink -f "$1"); shift
wt=/tmp/wt/mut_$$; bd=/tmp/vb_mut_$$
git -C /repo worktree add -q --detach $wt || exit 2
git -C $wt apply "$patch" || { echo "patch does not apply"; git -C /repo worktree remove --force $wt; exit 2; }
for p in "$@"; do echo "== $p"; VERIF_REPO=$wt VERIF_BUILD=$bd /verif/check $p --tier quick 2>&1 | tail -4 | cut -c1-300; done
git -C /repo worktree remove --force $wt; git -C /repo worktree prune; rm -rf $bd
