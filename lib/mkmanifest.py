#!/usr/bin/env python3
"""Regenerate /verif/MANIFEST.json from lib/props.py (claimed checks) and lib/na.py (not applicable)."""
import json, os, sys
V = os.path.dirname(os.path.dirname(os.path.abspath(__file__)))
sys.path.insert(0, os.path.join(V, 'lib'))
import props, na
checks = []
for pid in sorted(props.PROPS):
    s = props.PROPS[pid]
    engines = []
    if s.get('e1'): engines.append('symx')
    if s.get('e2'): engines.append('ir2c+cbmc')
    checks.append({
        'property_id': pid,
        'quick_cmd': './check %s --tier quick' % pid,
        'thorough_cmd': './check %s --tier thorough' % pid,
        'evidence_file': '/verif/evidence/%s.json' % pid,
        'replay_cmd_template': './check %s --replay {path}' % pid,
        'engine': '+'.join(engines),
        'level_claimed': {'category': 'model_checking',
                          'text': s.get('claim', 'Bounded symbolic check of the real code: ' + s.get('technique', '') + '. Holds for every value of the symbolic inputs at the enumerated shapes; bounds: ' + s.get('bounds', '')),
                          'design_ref': 'DESIGN.md section 4 ' + pid},
        'level_note': 'Outside the claim: ' + s.get('outside', '') + ' Trusted: ' + '; '.join(s.get('assumptions', [])),
        'technique': s.get('technique', ''),
    })
m = {
    'version': 1,
    'setup_cmd': 'make -C /verif framework',
    'hooks': {'guard': 'GAMA_VERIF', 'enable': 'no hooks: the checks compile the unmodified sources of /repo (symbolic build: -include symx/prefix.h; CBMC route: clang IR of wrapper TUs)',
              'baseline_off_cmd': 'cmake --build /repo/_build && ctest --test-dir /repo/_build -j8 --timeout 900', 'source_commits': [], 'add_only': True},
    'engines': [
        {'name': 'symx', 'path': 'symx/', 'serves_properties': sorted(p for p in props.PROPS if props.PROPS[p].get('e1')),
         'kind_free_text': 'source-level symbolic execution of the real C++ by scalar substitution (double -> polynomial term over Q), z3 decides every branch and assertion, DFS by re-execution, replay against the double build'},
        {'name': 'ir2c+cbmc', 'path': 'ir2c/', 'serves_properties': sorted(p for p in props.PROPS if props.PROPS[p].get('e2')),
         'kind_free_text': 'clang-14 LLVM IR of extern "C" wrappers around the real headers -> own IR-to-C translator -> CBMC 6.11 bounded model checking with unwinding assertions and witness twins'}],
    'checks': checks,
    'notes': 'Solver-based checking of the real code (engines E1 symx and E2 ir2c+CBMC). Fix commits in /repo and known findings: known_findings.txt, DESIGN.md section 7; seeded changes and which check catches which: seeded/, DESIGN.md section 8. C01/C02 additionally validate the svd contract natively (DESIGN.md section 3, L2).',
    'not_applicable': [{'property_id': k, 'reason': v} for k, v in sorted(na.NA.items()) if k not in props.PROPS],
}
json.dump(m, open(os.path.join(V, 'MANIFEST.json'), 'w'), indent=1)
print('MANIFEST.json: %d checks, %d not applicable' % (len(checks), len(m['not_applicable'])))
