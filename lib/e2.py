"""Engine E2 (clang IR -> C -> CBMC).  Filled in by e2 kernels; see ir2c/."""
def run_kernel(k, pid, tier, seed, rundir, repo):
    import e2impl
    return e2impl.run_kernel(k, pid, tier, seed, rundir, repo)
def write_replay(path, c, pid, tier, seed):
    import e2impl
    return e2impl.write_replay(path, c, pid, tier, seed)
def replay(path, info):
    import e2impl
    return e2impl.replay(path, info)
