#!/bin/bash
# seedsweep.sh : apply every stored seed to /repo in turn, run the checks named in its meta.json, report which caught it; /repo is restored after each
cd "$(dirname "$0")/.."
for d in seeded/S*/; do d=${d%/}
  id=$(basename $d)
  props=$(python3 -c "import json,sys; m=json.load(open('$d/meta.json')); c=m['checks_run'][0].split('patch.diff')[-1].split(); print(' '.join(c))")
  if ! git -C /repo apply --check $PWD/$d/patch.diff 2>/dev/null; then echo "$id: patch does not apply"; continue; fi
  git -C /repo apply $PWD/$d/patch.diff
  res=""
  for p in $props; do out=$(./check $p 2>&1); if echo "$out" | grep -q "^VIOLATION property=$p"; then res="$res $p:CAUGHT"; else res="$res $p:missed(rc=$(echo "$out" | grep -c INCONCL))"; fi; done
  git -C /repo checkout -- .
  echo "$id:$res"
done
