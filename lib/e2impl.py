"""Engine E2: wrapper TU -> clang-14 LLVM IR -> ir2c.py -> C -> CBMC 6.11 (bounded, unwinding assertions, witness twin),
differential validation of the translation against the g++ build of the same wrapper, replay of CBMC traces."""
import os, re, json, subprocess, time, hashlib, shutil

V = os.path.dirname(os.path.dirname(os.path.abspath(__file__)))
IR = os.path.join(V, 'ir2c')
CLANG = ['clang++-14', '-std=c++17', '-O1', '-fno-vectorize', '-fno-slp-vectorize', '-fno-unroll-loops', '-S', '-emit-llvm', '-w']
CBMC_FLAGS = ['--unwinding-assertions', '--pointer-overflow-check', '--undefined-shift-check', '--signed-overflow-check',
              '--drop-unused-functions', '--no-malloc-may-fail']


def sh(cmd, timeout=None, cwd=None):
    try:
        r = subprocess.run(cmd, stdout=subprocess.PIPE, stderr=subprocess.STDOUT, text=True, timeout=timeout, cwd=cwd)
        return r.returncode, r.stdout
    except subprocess.TimeoutExpired as e:
        return 124, (e.stdout or '') + '\n[timeout]'


def build(k, rundir, repo):
    """IR, generated C, differential validation.  Returns (ok, info)"""
    name = k['name']
    d = os.path.join(rundir, 'e2_' + name)
    shutil.rmtree(d, ignore_errors=True)
    os.makedirs(d)
    cpp = os.path.join(IR, 'kernels', k['cpp'])
    ll = os.path.join(d, name + '.ll')
    flags = list(k.get('clang_flags', ['-fno-exceptions']))
    rc, out = sh(CLANG + flags + ['-I' + os.path.join(repo, 'lib'), cpp, '-o', ll])
    if rc != 0:
        return False, {'error': 'clang failed: ' + out[-800:]}, d
    cfile = os.path.join(d, 'k_' + k.get('cfile', name) + '.c')
    rc, out = sh(['python3', os.path.join(IR, 'ir2c.py'), ll, cfile])
    if rc != 0:
        return False, {'error': 'ir2c failed: ' + out[-800:]}, d
    shutil.copy(os.path.join(IR, 'e2.h'), d)
    shutil.copy(os.path.join(IR, 'kernels', k['harness']), d)
    info = {'ir_lines': sum(1 for _ in open(ll)), 'c_lines': sum(1 for _ in open(cfile)),
            'ir_functions': [l.split('@')[1].split('(')[0] for l in open(ll) if l.startswith('define')]}
    # native objects: wrapper (g++) and translated C (gcc)
    rc, out = sh(['g++', '-std=c++17', '-O1', '-w', '-I' + os.path.join(repo, 'lib'), '-c', cpp, '-o', os.path.join(d, 'native.o')])
    if rc != 0:
        return False, {'error': 'g++ failed: ' + out[-800:]}, d
    if k.get('diff'):
        shutil.copy(os.path.join(IR, 'kernels', k['diff']), d)
        rc, out = sh(['gcc', '-O1', '-w', '-DIR2C_UB(c,m)=', '-DIR2C_UNREACHABLE()=', '-DIR2C_ASSUME(c)=', '-I' + d, '-c', cfile, '-o', os.path.join(d, 'trans.o')])
        if rc != 0:
            return False, {'error': 'gcc on generated C failed: ' + out[-800:]}, d
        rc, out = sh(['gcc', '-O1', '-w', '-I' + d, '-c', os.path.join(d, k['diff']), '-o', os.path.join(d, 'diff.o')])
        if rc != 0:
            return False, {'error': 'diff driver failed to compile: ' + out[-800:]}, d
        rc, out = sh(['g++', os.path.join(d, 'diff.o'), os.path.join(d, 'trans.o'), os.path.join(d, 'native.o'), '-o', os.path.join(d, 'diff')])
        if rc != 0:
            return False, {'error': 'diff link failed: ' + out[-800:]}, d
        rc, out = sh([os.path.join(d, 'diff')], timeout=120)
        m = re.search(r'DIFF cases=(\d+) mismatches=(\d+)', out)
        info['translation_validation'] = {'cases': int(m.group(1)) if m else 0, 'mismatches': int(m.group(2)) if m else -1}
        if rc != 0 or not m or int(m.group(2)) != 0:
            return False, {'error': 'translated C disagrees with the g++ build of the wrapper: ' + out[-500:]}, d
    return True, info, d


def cbmc(d, harness, fn, unwind, defs, extra, timeout):
    cmd = ['cbmc', harness, '--function', fn, '--unwind', str(unwind)] + CBMC_FLAGS + defs + extra + ['--json-ui', '--trace']
    t0 = time.time()
    rc, out = sh(cmd, timeout=timeout, cwd=d)
    dt = time.time() - t0
    if rc == 124:
        return {'status': 'timeout', 'time': dt}
    try:
        js = json.loads(out)
    except Exception:
        return {'status': 'error', 'time': dt, 'output': out[-600:]}
    res = None
    msgs = []
    for el in js:
        if isinstance(el, dict) and 'result' in el:
            res = el['result']
        if isinstance(el, dict) and el.get('messageType') == 'ERROR':
            msgs.append(el.get('messageText', ''))
    if res is None:
        return {'status': 'error', 'time': dt, 'output': (' | '.join(msgs) or out[-600:])}
    failed = [r for r in res if r.get('status') == 'FAILURE']
    return {'status': 'ok', 'time': dt, 'properties': len(res), 'failed': failed}


def inputs_from_trace(trace):
    vals = {}
    for st in trace or []:
        if st.get('stepType') == 'assignment':
            lhs = st.get('lhs', '')
            m = re.match(r'in_vals\[(\d+)l?\]$', lhs)
            if m and isinstance(st.get('value'), dict):
                try:
                    vals[int(m.group(1))] = int(st['value'].get('data', '0').rstrip('l'))
                except Exception:
                    pass
    return vals


def run_kernel(k, pid, tier, seed, rundir, repo):
    t0 = time.time()
    res = {'name': k['name'], 'violations': [], 'inconclusive': [], 'samples': [], 'queries': 0, 'nontrivial': 0, 'harnesses': []}
    ok, info, d = build(k, rundir, repo)
    res['build'] = info
    if not ok:
        res['inconclusive'].append(info.get('error', 'build failed'))
        res['summary'] = 'build failed'
        return res
    for f in k['funcs']:
        unwind = f['unwind'][tier] if isinstance(f['unwind'], dict) else f['unwind']
        defs = f.get('defs', {}).get(tier, []) if isinstance(f.get('defs'), dict) else f.get('defs', [])
        extra = f.get('cbmc', [])
        timeout = f.get('timeout', {}).get(tier, 600 if tier == 'quick' else 3000)
        h = {'function': f['fn'], 'unwind': unwind, 'defs': defs}
        # witness twin: the end of the harness must be reachable
        w = cbmc(d, k['harness'], f['fn'], unwind, defs + ['-DWITNESS'], extra, timeout)
        res['queries'] += 1
        wit_ok = w['status'] == 'ok' and any('witness' in (p.get('description', '')) for p in w['failed'])
        h['witness_reachable'] = wit_ok
        h['witness_time_s'] = round(w.get('time', 0), 2)
        if not wit_ok:
            res['inconclusive'].append('%s: witness twin did not fail (status %s): harness may be vacuous' % (f['fn'], w['status']))
            res['harnesses'].append(h)
            continue
        r = cbmc(d, k['harness'], f['fn'], unwind, defs, extra, timeout)
        res['queries'] += 1
        h['status'] = r['status']
        h['time_s'] = round(r.get('time', 0), 2)
        h['properties'] = r.get('properties', 0)
        if r['status'] != 'ok':
            res['inconclusive'].append('%s: cbmc %s %s' % (f['fn'], r['status'], r.get('output', '')[:200]))
            res['harnesses'].append(h)
            continue
        res['nontrivial'] += 1
        h['failed'] = [p.get('description', '') for p in r['failed']][:8]
        unw = [p for p in r['failed'] if 'unwinding assertion' in p.get('description', '')]
        if unw:
            res['inconclusive'].append('%s: unwinding assertion failed: bound %d too small' % (f['fn'], unwind))
        for p in r['failed']:
            desc = p.get('description', '')
            if 'unwinding assertion' in desc:
                continue
            if 'pointer_arithmetic' in p.get('property', ''):
                # forming (not dereferencing) a pointer outside its object: standard-level UB that no sanitizer or
                # replay confirms; listed separately, not counted as a violation (dereferences are checked on their own)
                res.setdefault('pointer_arithmetic_notes', [])
                if len(res['pointer_arithmetic_notes']) < 5:
                    res['pointer_arithmetic_notes'].append('%s: %s' % (f['fn'], desc[:160]))
                continue
            vals = inputs_from_trace(p.get('trace'))
            res['violations'].append({'engine': 'e2', 'harness': 'e2:' + k['name'], 'case': 'e2/%s/%s' % (k['name'], f['fn']), 'label': desc, 'detail': 'CBMC property %s failed' % p.get('property', ''),
                                      'kind': 'cbmc', 'kernel': k['name'], 'function': f['fn'], 'in_vals': vals, 'choices': [], 'inputs': {}, 'defs': defs,
                                      'pointer_only': ('pointer' in p.get('property', '') and 'overflow' in p.get('property', ''))})
        res['samples'].append({'kernel': k['name'], 'harness': f['fn'], 'unwind': unwind, 'defs': defs, 'properties_checked': r.get('properties', 0), 'cbmc_s': h['time_s']})
        res['harnesses'].append(h)
    res['wall_s'] = round(time.time() - t0, 1)
    res['summary'] = '%d harnesses, %d cbmc runs, %d failed properties, %d inconclusive, %.1fs' % (len(k['funcs']), res['queries'], len(res['violations']), len(res['inconclusive']), res['wall_s'])
    return res


def write_replay(path, c, pid, tier, seed):
    with open(path, 'w') as f:
        f.write('engine e2\nprop %s\ntier %s\nkernel %s\nfunction %s\nlabel %s\ndefs %s\n' % (pid, tier, c['kernel'], c['function'], c['label'].replace('\n', ' '), ' '.join(c.get('defs', []))))
        for k, v in sorted(c.get('in_vals', {}).items()):
            f.write('in %d %d\n' % (k, v))


def replay(path, info):
    import props
    kernel = None
    function = None
    defs = []
    for l in open(path):
        if l.startswith('kernel '):
            kernel = l.split(None, 1)[1].strip()
        if l.startswith('function '):
            function = l.split(None, 1)[1].strip()
        if l.startswith('defs '):
            defs = l.split()[1:]
    spec = None
    for pid, p in props.PROPS.items():
        for k in p.get('e2', []):
            if k['name'] == kernel:
                spec = k
    if spec is None:
        return None, 'unknown kernel ' + str(kernel)
    repo = os.environ.get('VERIF_REPO', '/repo')
    d = os.path.join(V, 'build', 'e2replay_' + kernel)
    shutil.rmtree(d, ignore_errors=True)
    os.makedirs(d)
    shutil.copy(os.path.join(IR, 'e2.h'), d)
    shutil.copy(os.path.join(IR, 'kernels', spec['harness']), d)
    cpp = os.path.join(IR, 'kernels', spec['cpp'])
    rc, out = sh(['g++', '-std=c++17', '-O1', '-w', '-I' + os.path.join(repo, 'lib'), '-c', cpp, '-o', os.path.join(d, 'native.o')])
    if rc != 0:
        return None, 'replay build failed: ' + out[-400:]
    rc, out = sh(['gcc', '-O1', '-w', '-DE2_REPLAY', '-I' + d] + defs + ['-c', os.path.join(d, spec['harness']), '-o', os.path.join(d, 'h.o')])
    if rc != 0:
        return None, 'replay harness build failed: ' + out[-400:]
    rc, out = sh(['g++', os.path.join(d, 'h.o'), os.path.join(d, 'native.o'), '-o', os.path.join(d, 'replay')])
    if rc != 0:
        return None, 'replay link failed: ' + out[-400:]
    rc, out = sh([os.path.join(d, 'replay'), path], timeout=120)
    return (rc != 0), out[-800:]
