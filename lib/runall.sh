#!/bin/bash
# runall.sh [tier] : every claimed check on the current tree, one summary line each
tier=${1:-quick}
cd "$(dirname "$0")/.."
for p in $(python3 -c "import json; print(' '.join(x['property_id'] for x in json.load(open('MANIFEST.json'))['checks']))" 2>/dev/null || echo C01 C02 C03 C04 C05 C06 C07 C08 C09 C10 C11 C12 C13 C14 C15 C16 C18 C19 C20); do
  s=$(date +%s); out=$(./check $p --tier $tier 2>&1); rc=$?; e=$(( $(date +%s) - s ))
  echo "$p rc=$rc ${e}s $(echo "$out" | grep -E "tier=" | sed 's/.*: //' | cut -c1-150)"
  echo "$out" | grep -E "VIOLATION|inconclusive|INCONCLUSIVE" | head -3
done
