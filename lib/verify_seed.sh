#!/bin/bash
# verify_seed.sh <worktree> : confirm a seeded change (a) builds, (b) passes the pinned suite (-j1), (c) its demo fails with and passes without it
wt=$1; cd $wt || exit 2
log=$wt/SEED/verify.log; : > $log
say() { echo "$@" | tee -a $log; }
demo() {  # run the demonstration, print exit code
  if [ -f SEED/run_demo.sh ]; then (cd SEED && sh run_demo.sh >/dev/null 2>&1); echo $?
  elif [ -f SEED/demo.sh ]; then (cd SEED && bash demo.sh >/dev/null 2>&1); echo $?
  elif [ -f SEED/demo_gama_local.sh ]; then (cd SEED && bash demo_gama_local.sh > /dev/null 2>&1); echo $?
  else
    src=SEED/demo.cpp; [ -f SEED/demo_adj.cpp ] && src=SEED/demo_adj.cpp
    g++ -std=c++17 -O1 -w -I$wt/lib $src $wt/lib/gnu_gama/adj/adj.cpp $wt/lib/gnu_gama/adj/adj_input_data.cpp $wt/lib/gnu_gama/adj/icgs.cpp $wt/lib/gnu_gama/gon2deg.cpp -o /tmp/demo_$$ 2>>$log && /tmp/demo_$$ >/dev/null 2>&1; rc=$?; rm -f /tmp/demo_$$; echo $rc
  fi
}
git -C $wt diff --stat -- lib src | tail -1 | tee -a $log
cmake --build $wt/_b 2>&1 | tail -1 >> $log
say "tests with change: $(ctest --test-dir $wt/_b -j1 --timeout 900 2>&1 | grep 'tests passed')"
say "demo with change: exit $(demo)"
git -C $wt diff -- lib src > $wt/SEED/.cur.diff; git -C $wt apply -R $wt/SEED/.cur.diff
cmake --build $wt/_b 2>&1 | tail -1 >> $log
say "demo without change: exit $(demo)"
git -C $wt apply $wt/SEED/.cur.diff; rm -f $wt/SEED/.cur.diff
cmake --build $wt/_b 2>&1 | tail -1 >> $log
say "done"
