#!/usr/bin/env python3
"""crosscheck.py <PROP> [max_queries]: dump the assertion queries (path condition AND NOT claim) of a property's symbolic harnesses as SMT-LIB2
and decide them again with cvc5; report agreements, disagreements and cvc5 unknowns.  A disagreement (sat vs unsat) is an alarm about the
engine/solver pair, not about gama."""
import sys, os, subprocess, glob, shutil, json, time
V = os.path.dirname(os.path.dirname(os.path.abspath(__file__)))
sys.path.insert(0, os.path.join(V, 'lib'))
import props
pid = sys.argv[1]; maxq = int(sys.argv[2]) if len(sys.argv) > 2 else 150
spec = props.PROPS[pid]
res = {'property': pid, 'agree': 0, 'disagree': [], 'cvc5_unknown': 0, 'z3_unknown': 0, 'queries': 0, 'by_harness': {}}
for h in spec.get('e1', []):
    name = h['harness']
    subprocess.run(['make', '-C', V, os.path.join(V, 'build/bin/%s.sym' % name)], stdout=subprocess.DEVNULL, stderr=subprocess.DEVNULL)
    d = os.path.join(V, 'build', 'smt_' + pid + '_' + name); shutil.rmtree(d, ignore_errors=True); os.makedirs(d)
    try:
        subprocess.run([os.path.join(V, 'build/bin/%s.sym' % name), '--prop', pid, '--smt-dir', d, '--out', os.path.join(d, 'out.jsonl'), '--budget-s', '300', '--shard', '0/8'],
                       stdout=subprocess.DEVNULL, stderr=subprocess.DEVNULL, timeout=900)
    except subprocess.TimeoutExpired:
        pass
    files = sorted(glob.glob(os.path.join(d, 'q*.smt2')))[:maxq]
    a = dg = u = 0
    for f in files:
        txt = open(f).read(); z = 'unknown'
        for l in txt.splitlines()[:3]:
            if l.startswith('; z3: '): z = l[6:].strip()
        try:
            r = subprocess.run(['cvc5', '--tlimit=20000', f], stdout=subprocess.PIPE, stderr=subprocess.STDOUT, text=True, timeout=40).stdout.strip().splitlines()
            c = r[0] if r else 'unknown'
        except subprocess.TimeoutExpired:
            c = 'unknown'
        res['queries'] += 1
        if z == 'unknown': res['z3_unknown'] += 1
        elif c not in ('sat', 'unsat'): res['cvc5_unknown'] += 1; u += 1
        elif c == z: res['agree'] += 1; a += 1
        else: res['disagree'].append({'file': f, 'z3': z, 'cvc5': c, 'label': txt.splitlines()[0][:200]}); dg += 1
    res['by_harness'][name] = {'queries': len(files), 'agree': a, 'disagree': dg, 'cvc5_unknown': u}
os.makedirs(os.path.join(V, 'crosscheck'), exist_ok=True)
json.dump(res, open(os.path.join(V, 'crosscheck', pid + '.json'), 'w'), indent=1)
print('%s: %d queries, agree %d, disagree %d, cvc5 unknown %d, z3 unknown %d' % (pid, res['queries'], res['agree'], len(res['disagree']), res['cvc5_unknown'], res['z3_unknown']))
sys.exit(1 if res['disagree'] else 0)
