#include <gnu_gama/adj/adj.h>
#include <iostream>
using namespace GNU_gama;
int main() {
  // 3 unknowns, 3 height differences in a loop: defect 1, no regularisation list given
  for (int rep = 0; rep < 3; rep++) {
    auto* in = new AdjInputData; auto* A = new SparseMatrix<>(6, 3, 3);
    A->new_row(); A->add_element(-1, 1); A->add_element(1, 2);
    A->new_row(); A->add_element(-1, 2); A->add_element(1, 3);
    A->new_row(); A->add_element(-1, 3); A->add_element(1, 1);
    in->set_mat(A); Vec<> b(3); b(1) = 1; b(2) = 2; b(3) = -2.9; in->set_rhs(b);

    double one = 1; BlockDiagonal<>* c = new BlockDiagonal<>(3, 3); for (int i = 0; i < 3; i++) c->add_block(1, 0, &one); in->set_cov(c);
    Adj adj; adj.set(in); adj.set_algorithm(Adj::cholesky);
    std::cout << adj.defect() << " " << adj.x()(1) << "\n";
  }
}
