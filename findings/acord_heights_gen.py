import sys
from math import *
ih=float(sys.argv[1]); th=float(sys.argv[2]); omit=sys.argv[3]=='omit'
S=(1000.0,2000.0,300.0)
T={'T1':(1090.0,2120.0,320.0),'T2':(1120.0,1840.0,285.0),'T3':(970.0,2040.0,312.0),'T4':(880.0,1910.0,310.0)}
fixed={'T4'}
o=[]
for k,p in T.items():
    dx,dy,dz=p[0]-S[0],p[1]-S[1],p[2]+th-S[2]-ih
    b=(atan2(dy,dx)-0.7)%(2*pi); sd=sqrt(dx*dx+dy*dy+dz*dz); z=atan2(hypot(dx,dy),dz)
    o.append('<direction to="%s" val="%.7f" stdev="10" />'%(k,b*200/pi))
    o.append('<s-distance to="%s" val="%.6f" stdev="5" to_dh="%g" />'%(k,sd,th))
    o.append('<z-angle to="%s" val="%.7f" stdev="10" to_dh="%g" />'%(k,z*200/pi,th))
pts=['<point id="S" x="%g" y="%g" z="%g" fix="xyz" />'%S]
for k,p in T.items():
    if k in fixed: pts.append('<point id="%s" x="%g" y="%g" z="%g" fix="xyz" />'%((k,)+p))
    elif omit: pts.append('<point id="%s" adj="xyz" />'%k)
    else: pts.append('<point id="%s" x="%g" y="%g" z="%g" adj="xyz" />'%((k,)+p))
print('''<?xml version="1.0" ?>
<gama-local xmlns="http://www.gnu.org/software/gama/gama-local">
<network>
<parameters sigma-apr="10" conf-pr="0.95" tol-abs="1000" sigma-act="apriori" />
<points-observations>
%s
<obs from="S" from_dh="%g">
%s
</obs>
</points-observations>
</network>
</gama-local>'''%("\n".join(pts),ih,"\n".join(o)))
