/* differential validation of the translation: generated C (f_*) against the g++ build of the wrapper */
#include <stdio.h>
#include <stdint.h>
#include <string.h>
int k_is_float(const char*, const char*); int k_is_integer(const char*, const char*); long k_trim(const char*, const char*, long*); long k_skip(const char*, const char*);
uint32_t f_k_is_float(uint8_t*, uint8_t*); uint32_t f_k_is_integer(uint8_t*, uint8_t*); uint64_t f_k_trim(uint8_t*, uint8_t*, uint8_t*); uint64_t f_k_skip(uint8_t*, uint8_t*);
static uint64_t rs = 88172645463325252ULL; static uint64_t rnd(void) { rs ^= rs << 13; rs ^= rs >> 7; rs ^= rs << 17; return rs; }
int main(void) {
  const char* fixed[] = {"", "  ", " 1   ", " 1 1 ", " +1  ", " -1  ", " 1.0 ", " 1.0 0 ", "e", "+1.2g", "+1.2e", "+1.2e3", "+1.2e+", "+1.2e-3", "+1.2e-3x", ".", "-.5", "5.", "1e5", "\t12\n", "+", "-", "1e", ".e1", "0x10", "1..2", "--1", "1e+-2"};
  const char alphabet[] = " \t\n+-.eE0123456789x";
  long cases = 0, mism = 0; char buf[16];
  for (int r = 0; r < 200000 + (int)(sizeof fixed / sizeof fixed[0]); r++) {
    int n;
    if (r < (int)(sizeof fixed / sizeof fixed[0])) { n = (int)strlen(fixed[r]); memcpy(buf, fixed[r], n); }
    else { n = (int)(rnd() % 10); for (int i = 0; i < n; i++) buf[i] = (rnd() % 8) ? alphabet[rnd() % (sizeof alphabet - 1)] : (char)(rnd() & 255); }
    long a1 = -1, a2 = -1;
    int d = 0;
    d |= k_is_float(buf, buf + n) != (int)f_k_is_float((uint8_t*)buf, (uint8_t*)buf + n);
    d |= k_is_integer(buf, buf + n) != (int)f_k_is_integer((uint8_t*)buf, (uint8_t*)buf + n);
    d |= k_trim(buf, buf + n, &a1) != (long)f_k_trim((uint8_t*)buf, (uint8_t*)buf + n, (uint8_t*)&a2) || a1 != a2;
    d |= k_skip(buf, buf + n) != (long)f_k_skip((uint8_t*)buf, (uint8_t*)buf + n);
    cases++; mism += d;
  }
  printf("DIFF cases=%ld mismatches=%ld\n", cases, mism);
  return mism != 0;
}
