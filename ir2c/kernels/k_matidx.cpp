// wrappers: packed / banded storage index maps of the real matvec classes, and the move-to-front cache
#define private public
#define protected public
#include <matvec/symmat.h>
#include <matvec/covmat.h>
#include <matvec/bandmat.h>
#include <gnu_gama/movetofront.h>
#undef private
#undef protected
using namespace GNU_gama;
typedef Exception::matvec Exc;
typedef MoveToFront<3, int, int> MTF;
extern "C" {
// offset (in elements) of element (i,j) from begin(), and the number of stored elements; -1000 = exception
__attribute__((noinline)) long k_symmat_off(int dim, int i, int j, long* size) {
  try { SymMat<double, int, Exc> S(dim); *size = S.end() - S.begin(); return &S(i, j) - S.begin(); } catch (const Exc&) { return -1000; }
}
__attribute__((noinline)) long k_covmat_off(int dim, int band, int i, int j, long* size) {
  try { CovMat<double, int, Exc> C(dim, band); *size = C.end() - C.begin(); return &C(i, j) - C.begin(); } catch (const Exc&) { return -1000; }
}
__attribute__((noinline)) long k_covmat_row(int dim, int band, int row, long* size) {
  try { CovMat<double, int, Exc> C(dim, band); *size = C.end() - C.begin(); return C[row] - C.begin(); } catch (const Exc&) { return -1000; }
}
__attribute__((noinline)) long k_bandmat_off(int dim, int band, int i, int j, long* size) {
  try { BandMat<double, int, Exc> B(dim, band); *size = B.end() - B.begin(); return &B(i, j) - B.begin(); } catch (const Exc&) { return -1000; }
}
// move-to-front cache: the object lives in caller-provided storage
__attribute__((noinline)) long k_mtf_sizeof() { return sizeof(MTF); }
__attribute__((noinline)) void k_mtf_layout(long* key, long* buf, long* active) { MTF* m = 0; *key = (long)((char*)&m->key_[0] - (char*)m); *buf = (long)((char*)&m->buf_[0] - (char*)m); *active = (long)((char*)&m->active - (char*)m); }
__attribute__((noinline)) int k_mtf_get(MTF* m, int key, int* hit) { std::pair<int, bool> p = m->get(key); *hit = p.second ? 1 : 0; return p.first; }
__attribute__((noinline)) void k_mtf_erase(MTF* m) { m->erase(); }
}
