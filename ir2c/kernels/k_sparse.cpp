// wrappers: sequential fill, replicate and transpose of the real GNU_gama::SparseMatrix
#include <cstring>
#include <gnu_gama/sparse/smatrix.h>
// the element type is only moved by these members: the integer instantiation of the same template keeps CBMC out of
// floating-point bit-blasting (stated in the evidence)
typedef GNU_gama::SparseMatrix<long, int> SM;
extern "C" {
__attribute__((noinline)) void* k_sm_new(int floats, int rows, int cols) { return new SM(floats, rows, cols); }
__attribute__((noinline)) void  k_sm_delete(void* p) { delete (SM*)p; }
__attribute__((noinline)) void  k_sm_new_row(void* p) { ((SM*)p)->new_row(); }
__attribute__((noinline)) void  k_sm_add(void* p, long v, int col) { ((SM*)p)->add_element(v, col); }
__attribute__((noinline)) void* k_sm_transpose(const void* p) { return ((const SM*)p)->transpose(); }
__attribute__((noinline)) void* k_sm_replicate(const void* p) { return ((const SM*)p)->replicate(); }
__attribute__((noinline)) int   k_sm_rows(const void* p) { return ((const SM*)p)->rows(); }
__attribute__((noinline)) int   k_sm_cols(const void* p) { return ((const SM*)p)->columns(); }
__attribute__((noinline)) int   k_sm_nonz(const void* p) { return ((const SM*)p)->nonzeroes(); }
__attribute__((noinline)) int   k_sm_size(const void* p, int row) { return ((const SM*)p)->size(row); }
__attribute__((noinline)) long k_sm_val(const void* p, int row, int k) { return ((const SM*)p)->begin(row)[k]; }
__attribute__((noinline)) int   k_sm_col(const void* p, int row, int k) { return ((const SM*)p)->ibegin(row)[k]; }
__attribute__((noinline)) int   k_sm_check(const void* p) { return ((const SM*)p)->check() ? 1 : 0; }
}
