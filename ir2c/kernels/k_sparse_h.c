/* Harness (C16): building, replicating and transposing a sparse matrix preserves every entry.
 * Dimensions ROWS x COLS are concrete per run (allocation sizes concrete); the row lengths (0..MAXLEN each,
 * empty rows included) and every column index are symbolic. */
#include "e2.h"
#ifndef ROWS
#define ROWS 3
#endif
#ifndef COLS
#define COLS 3
#endif
#ifndef MAXLEN
#define MAXLEN 2
#endif
#ifndef E2_REPLAY
#include "k_sparse.c"
#define PTR(x) ((uint8_t*)(x))
typedef uint8_t* H;
#else
#ifdef __cplusplus
extern "C" {
#endif
void* k_sm_new(int, int, int); void k_sm_delete(void*); void k_sm_new_row(void*); void k_sm_add(void*, long, int); void* k_sm_transpose(const void*); void* k_sm_replicate(const void*);
int k_sm_rows(const void*); int k_sm_cols(const void*); int k_sm_nonz(const void*); int k_sm_size(const void*, int); long k_sm_val(const void*, int, int); int k_sm_col(const void*, int, int); int k_sm_check(const void*);
#ifdef __cplusplus
}
#endif
#define PTR(x) (x)
typedef void* H;
static void ir_init_globals(void) {}
#endif
static long dense[ROWS][COLS], dense2[ROWS][COLS], denseT[COLS][ROWS];
void h_sparse(void) {
  ir_init_globals();
  H A = (H)K(k_sm_new)(ROWS * MAXLEN, ROWS, COLS);
  int pos = 0, nnz = 0; long tag = 1;
  for (int r = 0; r < ROWS; r++) {
    int len = (int)in(pos++, 0, MAXLEN);
    K(k_sm_new_row)(A);
    for (int k = 0; k < MAXLEN; k++) { int c = (int)in(pos++, 1, COLS); if (k < len) { K(k_sm_add)(A, tag, c); dense[r][c - 1] += tag; tag *= 2; nnz++; } }
  }
  CHECK((int)K(k_sm_nonz)(A) == nnz && (int)K(k_sm_rows)(A) == ROWS && (int)K(k_sm_cols)(A) == COLS && (int)K(k_sm_check)(A) == 1, "built matrix has the entries given");
  H R = (H)K(k_sm_replicate)(A); H T = (H)K(k_sm_transpose)(A);
  CHECK((int)K(k_sm_rows)(R) == ROWS && (int)K(k_sm_cols)(R) == COLS && (int)K(k_sm_nonz)(R) == nnz, "replica has the same shape and count");
  CHECK((int)K(k_sm_rows)(T) == COLS && (int)K(k_sm_cols)(T) == ROWS && (int)K(k_sm_nonz)(T) == nnz, "transpose has the swapped shape and the same count");
  int cnt = 0;
  for (int r = 1; r <= ROWS; r++) { int s = (int)K(k_sm_size)(R, r); CHECK(s >= 0 && s <= MAXLEN, "replica row length"); for (int k = 0; k < MAXLEN; k++) if (k < s) { int c = (int)K(k_sm_col)(R, r, k); CHECK(c >= 1 && c <= COLS, "replica column index in range"); if (c >= 1 && c <= COLS) dense2[r - 1][c - 1] += K(k_sm_val)(R, r, k); } }
  for (int r = 1; r <= COLS; r++) { int s = (int)K(k_sm_size)(T, r); CHECK(s >= 0 && s <= ROWS * MAXLEN, "transpose row length"); cnt += s;
    for (int k = 0; k < ROWS * MAXLEN; k++) if (k < s) { int c = (int)K(k_sm_col)(T, r, k); CHECK(c >= 1 && c <= ROWS, "transpose column index in range"); if (c >= 1 && c <= ROWS) denseT[r - 1][c - 1] += K(k_sm_val)(T, r, k); } }
  CHECK(cnt == nnz, "transpose row lengths add up to the number of entries");
  for (int r = 0; r < ROWS; r++) for (int c = 0; c < COLS; c++) { CHECK(dense2[r][c] == dense[r][c], "replica holds exactly the entries of the original"); CHECK(denseT[c][r] == dense[r][c], "transpose holds exactly the entries (c,r,v) of the original"); }
  K(k_sm_delete)(A); K(k_sm_delete)(R); K(k_sm_delete)(T);
  REACHED();
}
#ifdef E2_REPLAY
int main(int argc, char** argv) {
  FILE* f = fopen(argv[1], "r"); char fn[64] = ""; char line[256];
  while (f && fgets(line, sizeof line, f)) { int k; long v; if (sscanf(line, "in %d %ld", &k, &v) == 2 && k >= 0 && k < E2_MAXIN) in_vals[k] = v; sscanf(line, "function %63s", fn); }
  if (!strcmp(fn, "h_sparse")) h_sparse(); else { printf("unknown function %s\n", fn); return 2; }
  printf(e2_failed ? "REPLAY-RESULT reproduced\n" : "REPLAY-RESULT not-reproduced\n"); return e2_failed;
}
#endif
