// extern "C" wrappers around the real recognisers of lib/gnu_gama/intfloat.h (const char* instantiation:
// the same templates the std::string overloads instantiate with string::const_iterator)
#include <gnu_gama/intfloat.h>
extern "C" {
__attribute__((noinline)) int k_is_float(const char* b, const char* e)   { return GNU_gama::IsFloat(b, e) ? 1 : 0; }
__attribute__((noinline)) int k_is_integer(const char* b, const char* e) { return GNU_gama::IsInteger(b, e) ? 1 : 0; }
__attribute__((noinline)) long k_trim(const char* b, const char* e, long* newlen) { const char* b0 = b; GNU_gama::TrimWhiteSpaces(b, e); *newlen = e - b; return b - b0; }
__attribute__((noinline)) long k_skip(const char* b, const char* e) { const char* b0 = b; GNU_gama::SkipWhiteSpaces(b, e); return b - b0; }
}
