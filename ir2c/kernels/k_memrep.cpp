// wrappers: the owning buffer GNU_gama::MemRep (base of Vec, Mat, SymMat, CovMat, BandMat) through a minimal
// derived class that only re-exports its protected members; objects live in caller storage
#include <new>
#include <utility>
#include <matvec/memrep.h>
using namespace GNU_gama;
typedef Exception::matvec Exc;
struct Buf : public MemRep<double, int, Exc> {
  Buf() : MemRep<double, int, Exc>() {}
  Buf(const Buf& b) : MemRep<double, int, Exc>(b) {}
  Buf(Buf&& b) noexcept : MemRep<double, int, Exc>(std::move(b)) {}
  Buf& operator=(const Buf& b) { MemRep<double, int, Exc>::operator=(b); return *this; }
  Buf& operator=(Buf&& b) noexcept { MemRep<double, int, Exc>::operator=(std::move(b)); return *this; }
  void rs(int n) { this->resize(n); }
  int  sz() const { return this->size(); }
};
extern "C" {
__attribute__((noinline)) long k_buf_sizeof() { return sizeof(Buf); }
__attribute__((noinline)) void k_buf_ctor(void* p, int n) { Buf* b = new (p) Buf(); b->rs(n); }
__attribute__((noinline)) void k_buf_dtor(void* p) { ((Buf*)p)->~Buf(); }
__attribute__((noinline)) void k_buf_copy_ctor(void* d, const void* s) { new (d) Buf(*(const Buf*)s); }
__attribute__((noinline)) void k_buf_move_ctor(void* d, void* s) { new (d) Buf(std::move(*(Buf*)s)); }
__attribute__((noinline)) void k_buf_assign(void* d, const void* s) { *(Buf*)d = *(const Buf*)s; }
__attribute__((noinline)) void k_buf_move_assign(void* d, void* s) { *(Buf*)d = std::move(*(Buf*)s); }
__attribute__((noinline)) void k_buf_resize(void* p, int n) { ((Buf*)p)->rs(n); }
__attribute__((noinline)) int  k_buf_size(const void* p) { return ((const Buf*)p)->sz(); }
__attribute__((noinline)) double k_buf_get(const void* p, int i) { return ((const Buf*)p)->begin()[i]; }
__attribute__((noinline)) void k_buf_set(void* p, int i, double x) { ((Buf*)p)->begin()[i] = x; }
}
