/* Harness (C15): copies are independent of their source whatever the sizes involved, and non-conforming operands
 * raise an exception instead of reading outside the operands (that part is checked by the symbolic harness).  Three MemRep objects with symbolic sizes 0..3, every
 * sequence of NOPS operations drawn from {copy-assign, move-assign, reset(n), write element, copy-construct,
 * move-construct}; a shadow model in the harness predicts the contents; CBMC's memory checks (bounds, use after
 * free, double free, invalid free) are on for the real code. */
#include "e2.h"
#ifndef NOPS
#define NOPS 3
#endif
#ifndef E2_REPLAY
#include "k_memrep.c"
#define PTR(x) ((uint8_t*)(x))
#else
#ifdef __cplusplus
extern "C" {
#endif
long k_buf_sizeof(void); void k_buf_ctor(void*, int); void k_buf_dtor(void*); void k_buf_copy_ctor(void*, const void*); void k_buf_move_ctor(void*, void*);
void k_buf_assign(void*, const void*); void k_buf_move_assign(void*, void*); void k_buf_resize(void*, int); int k_buf_size(const void*); double k_buf_get(const void*, int); void k_buf_set(void*, int, double);
#ifdef __cplusplus
}
#endif
#define PTR(x) (x)
static void ir_init_globals(void) {}
#endif

static unsigned char obj[3][64] __attribute__((aligned(16)));
static int sdim[3]; static double sval[3][3];

static void agree(const char* when) {
  for (int a = 0; a < 3; a++) {
    CHECK((int)K(k_buf_size)(PTR(obj[a])) == sdim[a], "dimension of every object is what the operations imply");
    for (int i = 0; i < 3; i++) if (i < sdim[a]) CHECK(K(k_buf_get)(PTR(obj[a]), i) == sval[a][i], "contents of every object are what the operations imply (copies independent)");
  }
  (void)when;
}
void h_history(void) {
  ir_init_globals();
  CHECK(K(k_buf_sizeof)() <= 64, "object fits the harness storage");
  int pos = 0;
  for (int a = 0; a < 3; a++) {
    int n = (int)in(pos++, 0, 3); K(k_buf_ctor)(PTR(obj[a]), n); sdim[a] = n;
    for (int i = 0; i < 3; i++) if (i < n) { sval[a][i] = 10 * (a + 1) + i; K(k_buf_set)(PTR(obj[a]), i, sval[a][i]); }
  }
  for (int step = 0; step < NOPS; step++) {
    int op = (int)in(pos++, 0, 5), a = (int)in(pos++, 0, 2), b = (int)in(pos++, 0, 2), n = (int)in(pos++, 0, 3);
    if (op == 0) { K(k_buf_assign)(PTR(obj[a]), PTR(obj[b])); if (a != b) { sdim[a] = sdim[b]; for (int i = 0; i < 3; i++) sval[a][i] = sval[b][i]; } }
    else if (op == 1) { K(k_buf_move_assign)(PTR(obj[a]), PTR(obj[b])); if (a != b) { sdim[a] = sdim[b]; for (int i = 0; i < 3; i++) sval[a][i] = sval[b][i]; sdim[b] = 0; } }
    else if (op == 2) { K(k_buf_resize)(PTR(obj[a]), n); sdim[a] = n; for (int i = 0; i < 3; i++) if (i < n) { sval[a][i] = 100 * (step + 1) + i; K(k_buf_set)(PTR(obj[a]), i, sval[a][i]); } }
    else if (op == 3) { if (n >= 1 && n <= sdim[a]) { sval[a][n - 1] = 1000 + step; K(k_buf_set)(PTR(obj[a]), n - 1, sval[a][n - 1]); } }
    else if (op == 4) { if (a != b) { K(k_buf_dtor)(PTR(obj[a])); K(k_buf_copy_ctor)(PTR(obj[a]), PTR(obj[b])); sdim[a] = sdim[b]; for (int i = 0; i < 3; i++) sval[a][i] = sval[b][i]; } }
    else { if (a != b) { K(k_buf_dtor)(PTR(obj[a])); K(k_buf_move_ctor)(PTR(obj[a]), PTR(obj[b])); sdim[a] = sdim[b]; for (int i = 0; i < 3; i++) sval[a][i] = sval[b][i]; sdim[b] = 0; } }
    agree("after step");
  }
  for (int a = 0; a < 3; a++) K(k_buf_dtor)(PTR(obj[a]));
  REACHED();
}
#ifdef E2_REPLAY
int main(int argc, char** argv) {
  FILE* f = fopen(argv[1], "r"); char fn[64] = ""; char line[256];
  while (f && fgets(line, sizeof line, f)) { int k; long v; if (sscanf(line, "in %d %ld", &k, &v) == 2 && k >= 0 && k < E2_MAXIN) in_vals[k] = v; sscanf(line, "function %63s", fn); }
  if (!strcmp(fn, "h_history")) h_history(); else { printf("unknown function %s\n", fn); return 2; }
  printf(e2_failed ? "REPLAY-RESULT reproduced\n" : "REPLAY-RESULT not-reproduced\n"); return e2_failed;
}
#endif
