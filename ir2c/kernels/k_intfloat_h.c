/* Harness: the numeric-literal recognisers accept exactly the documented formats and never read outside [b,e).
 * Input: every byte buffer of length 0..NBYTES (NBYTES from the command line, default 6). */
#include "e2.h"
#ifndef NBYTES
#define NBYTES 6
#endif
#ifndef E2_REPLAY
#include "k_intfloat.c"
#else
int k_is_float(const char*, const char*); int k_is_integer(const char*, const char*); long k_trim(const char*, const char*, long*); long k_skip(const char*, const char*);
#define f_dummy 0
#endif
#ifndef E2_REPLAY
/* C-locale isspace/isdigit as the environment model */
uint32_t isspace(uint32_t c) { int x = (int)c; return (x == ' ' || (x >= 9 && x <= 13)) ? 1u : 0u; }
#endif
static int ws(int c) { return c == ' ' || (c >= 9 && c <= 13); }
static int dg(int c) { return c >= '0' && c <= '9'; }
/* reference grammar:  ws* [+-]? ( d+ ('.' d*)? | '.' d+ ) ( [eE] [+-]? d+ )? ws*  */
static int ref_float(const signed char* s, int n) {
  int b = 0, e = n; while (b < e && ws(s[b])) b++; while (e > b && ws(s[e - 1])) e--;
  if (b == e) return 0;
  if (s[b] == '+' || s[b] == '-') b++;
  int nd = 0; while (b < e && dg(s[b])) { b++; nd++; }
  if (b < e && s[b] == '.') { b++; while (b < e && dg(s[b])) { b++; nd++; } }
  if (nd == 0) return 0;
  if (b < e) { if (s[b] != 'e' && s[b] != 'E') return 0; b++; if (b < e && (s[b] == '+' || s[b] == '-')) b++; int ne = 0; while (b < e && dg(s[b])) { b++; ne++; } if (ne == 0 || b != e) return 0; }
  return 1;
}
/* reference grammar:  ws* [+-]? d+ ws* */
static int ref_int(const signed char* s, int n) {
  int b = 0, e = n; while (b < e && ws(s[b])) b++; while (e > b && ws(s[e - 1])) e--;
  if (b == e) return 0;
  if (s[b] == '+' || s[b] == '-') b++;
  int nd = 0; while (b < e && dg(s[b])) { b++; nd++; }
  return nd > 0 && b == e;
}
static signed char buf[NBYTES + 1];
static int draw(void) {
  int n = (int)in(0, 0, NBYTES);
  for (int i = 0; i < NBYTES; i++) { long v = in(1 + i, -128, 127); if (i < n) buf[i] = (signed char)v; }
  return n;
}
void h_is_float(void) {
  int n = draw();
  /* the buffer handed over is exactly n bytes long: CBMC's pointer checks flag any access outside it */
#ifndef E2_REPLAY
  signed char* p = (signed char*)malloc(n ? n : 1); ASSUME(p != 0); for (int i = 0; i < n; i++) p[i] = buf[i];
  int got = (int)K(k_is_float)((uint8_t*)p, (uint8_t*)p + n);
#else
  int got = k_is_float((const char*)buf, (const char*)buf + n);
#endif
  CHECK(got == ref_float(buf, n), "IsFloat accepts exactly the documented float format");
  REACHED();
}
void h_is_integer(void) {
  int n = draw();
#ifndef E2_REPLAY
  signed char* p = (signed char*)malloc(n ? n : 1); ASSUME(p != 0); for (int i = 0; i < n; i++) p[i] = buf[i];
  int got = (int)K(k_is_integer)((uint8_t*)p, (uint8_t*)p + n);
#else
  int got = k_is_integer((const char*)buf, (const char*)buf + n);
#endif
  CHECK(got == ref_int(buf, n), "IsInteger accepts exactly the documented integer format");
  REACHED();
}
void h_trim(void) {
  int n = draw(); long newlen = -1;
#ifndef E2_REPLAY
  signed char* p = (signed char*)malloc(n ? n : 1); ASSUME(p != 0); for (int i = 0; i < n; i++) p[i] = buf[i];
  long off = (long)K(k_trim)((uint8_t*)p, (uint8_t*)p + n, (uint8_t*)&newlen);
#else
  long off = k_trim((const char*)buf, (const char*)buf + n, &newlen);
#endif
  int b = 0, e = n; while (b < e && ws(buf[b])) b++; while (e > b && ws(buf[e - 1])) e--;
  CHECK(off == b && newlen == e - b, "TrimWhiteSpaces removes exactly the leading and trailing white space");
  REACHED();
}
#ifdef E2_REPLAY
int main(int argc, char** argv) {
  FILE* f = fopen(argv[1], "r"); char fn[64] = ""; char line[256];
  while (f && fgets(line, sizeof line, f)) { int k; long v; if (sscanf(line, "in %d %ld", &k, &v) == 2 && k >= 0 && k < E2_MAXIN) in_vals[k] = v; sscanf(line, "function %63s", fn); }
  if (!strcmp(fn, "h_is_float")) h_is_float(); else if (!strcmp(fn, "h_is_integer")) h_is_integer(); else if (!strcmp(fn, "h_trim")) h_trim(); else { printf("unknown function %s\n", fn); return 2; }
  printf(e2_failed ? "REPLAY-RESULT reproduced\n" : "REPLAY-RESULT not-reproduced\n"); return e2_failed;
}
#endif
