/* Harnesses: packed/banded storage index maps (C15) and one step of the move-to-front cache from an arbitrary
 * valid state (C04; one inductive step covers query histories of any length). */
#include "e2.h"
#ifndef DMAX
#define DMAX 10
#endif
#ifndef E2_REPLAY
#include "k_matidx.c"
#define PTR(x) ((uint8_t*)(x))
#else
#ifdef __cplusplus
extern "C" {
#endif
long k_symmat_off(int, int, int, long*); long k_covmat_off(int, int, int, int, long*); long k_covmat_row(int, int, int, long*); long k_bandmat_off(int, int, int, int, long*);
long k_mtf_sizeof(void); void k_mtf_layout(long*, long*, long*); int k_mtf_get(void*, int, int*); void k_mtf_erase(void*);
#ifdef __cplusplus
}
#endif
#define PTR(x) (x)
#endif

void h_symmat(void) {
  int dim = (int)in(0, 1, DMAX), i = (int)in(1, 1, DMAX), j = (int)in(2, 1, DMAX), i2 = (int)in(3, 1, DMAX), j2 = (int)in(4, 1, DMAX);
  ASSUME(i <= dim && j <= dim && i2 <= dim && j2 <= dim);
  long size = -1, s2 = -1, s3 = -1;
  long a = (long)K(k_symmat_off)(dim, i, j, PTR(&size)), b = (long)K(k_symmat_off)(dim, j, i, PTR(&s2)), c = (long)K(k_symmat_off)(dim, i2, j2, PTR(&s3));
  CHECK(size == (long)dim * (dim + 1) / 2, "SymMat stores dim(dim+1)/2 elements");
  CHECK(a >= 0 && a < size, "SymMat element inside the storage");
  CHECK(a == b, "SymMat(i,j) and SymMat(j,i) are the same element");
  int hi = i >= j ? i : j, lo = i >= j ? j : i, hi2 = i2 >= j2 ? i2 : j2, lo2 = i2 >= j2 ? j2 : i2;
  CHECK((a == c) == (hi == hi2 && lo == lo2), "SymMat index map is injective on the lower triangle");
  CHECK(a == (long)hi * (hi - 1) / 2 + lo - 1, "SymMat packed row-wise lower triangle");
  REACHED();
}
void h_covmat(void) {
  int dim = (int)in(0, 1, DMAX), band = (int)in(1, 0, DMAX - 1), i = (int)in(2, 1, DMAX), j = (int)in(3, 1, DMAX), i2 = (int)in(4, 1, DMAX), j2 = (int)in(5, 1, DMAX);
  ASSUME(band < dim && i <= dim && j <= dim && i2 <= dim && j2 <= dim);
  long size = -1, s2 = -1, s3 = -1;
  long a = (long)K(k_covmat_off)(dim, band, i, j, PTR(&size));
  long expect = (long)dim * (band + 1) - (long)band * (band + 1) / 2;
  int lo = i <= j ? i : j, hi = i <= j ? j : i;
  if (hi - lo > band) { CHECK(a == -1000, "CovMat element outside the band raises an exception"); REACHED(); return; }
  CHECK(a != -1000, "CovMat element inside the band is accessible");
  CHECK(size == expect, "CovMat stores dim(band+1) - band(band+1)/2 elements");
  CHECK(a >= 0 && a < size, "CovMat element inside the storage");
  long b = (long)K(k_covmat_off)(dim, band, j, i, PTR(&s2));
  CHECK(a == b, "CovMat(i,j) and CovMat(j,i) are the same element");
  int lo2 = i2 <= j2 ? i2 : j2, hi2 = i2 <= j2 ? j2 : i2;
  if (hi2 - lo2 <= band) { long c = (long)K(k_covmat_off)(dim, band, i2, j2, PTR(&s3)); CHECK((a == c) == (lo == lo2 && hi == hi2), "CovMat index map is injective inside the band"); }
  REACHED();
}
void h_bandmat(void) {
  int dim = (int)in(0, 1, DMAX), band = (int)in(1, 0, DMAX - 1), i = (int)in(2, 1, DMAX), j = (int)in(3, 1, DMAX), i2 = (int)in(4, 1, DMAX), j2 = (int)in(5, 1, DMAX);
  ASSUME(band < dim && i <= dim && j <= dim && i2 <= dim && j2 <= dim);
  int lo = i <= j ? i : j, hi = i <= j ? j : i, lo2 = i2 <= j2 ? i2 : j2, hi2 = i2 <= j2 ? j2 : i2;
  ASSUME(hi - lo <= band && hi2 - lo2 <= band);
  long size = -1, s2 = -1, s3 = -1;
  long a = (long)K(k_bandmat_off)(dim, band, i, j, PTR(&size)), b = (long)K(k_bandmat_off)(dim, band, j, i, PTR(&s2)), c = (long)K(k_bandmat_off)(dim, band, i2, j2, PTR(&s3));
  CHECK(a != -1000 && b != -1000 && c != -1000, "BandMat element inside the band is accessible");
  CHECK(size == (long)dim * (band + 1), "BandMat stores dim(band+1) elements");
  CHECK(a >= 0 && a < size, "BandMat element inside the storage");
  CHECK(a == b, "BandMat(i,j) and BandMat(j,i) are the same element");
  CHECK((a == c) == (lo == lo2 && hi == hi2), "BandMat index map is injective inside the band");
  REACHED();
}

/* ---- move-to-front cache: one step from an arbitrary state satisfying the representation invariant ---- */
static int perm3(int a, int b, int c) { return a >= 0 && a <= 2 && b >= 0 && b <= 2 && c >= 0 && c <= 2 && a != b && a != c && b != c; }
void h_mtf_step(void) {
  long okey, obuf, oact; K(k_mtf_layout)(PTR(&okey), PTR(&obuf), PTR(&oact));
  long sz = (long)K(k_mtf_sizeof)();
  CHECK(sz <= 64 && okey >= 0 && obuf >= 0 && oact >= 0 && okey + 12 <= sz && obuf + 12 <= sz && oact + 8 <= sz, "layout of MoveToFront<3,int,int>");
  unsigned char m[64];
  int key[3], buf[3]; long active = in(0, 0, 3);
  for (int t = 0; t < 3; t++) { key[t] = (int)in(1 + t, -5, 5); buf[t] = (int)in(4 + t, 0, 2); }
  ASSUME(perm3(buf[0], buf[1], buf[2]));                                 /* buffers are a permutation of the three slots */
  ASSUME(active < 2 || key[0] != key[1]); ASSUME(active < 3 || (key[0] != key[2] && key[1] != key[2]));   /* active keys distinct */
  for (int t = 0; t < 3; t++) { memcpy(m + okey + 4 * t, &key[t], 4); memcpy(m + obuf + 4 * t, &buf[t], 4); }
  size_t act = (size_t)active; memcpy(m + oact, &act, 8);
  int k = (int)in(7, -5, 5), hit = -1;
  int got = (int)K(k_mtf_get)(PTR(m), k, PTR(&hit));
  int nkey[3], nbuf[3]; size_t nact;
  for (int t = 0; t < 3; t++) { memcpy(&nkey[t], m + okey + 4 * t, 4); memcpy(&nbuf[t], m + obuf + 4 * t, 4); }
  memcpy(&nact, m + oact, 8);
  int was = -1; for (int t = 0; t < (int)active; t++) if (key[t] == k) was = t;
  CHECK(hit == (was >= 0), "hit exactly when the key was active");
  if (was >= 0) CHECK(got == buf[was], "on a hit the buffer bound to the key is returned");
  CHECK(nact <= 3 && perm3(nbuf[0], nbuf[1], nbuf[2]), "invariant: active <= 3, buffers remain a permutation");
  CHECK(nkey[0] == k && nbuf[0] == got, "the requested key is now first and bound to the returned buffer");
  CHECK(nact == (size_t)(was >= 0 ? active : (active < 3 ? active + 1 : 3)), "number of active entries");
  CHECK(nact < 2 || nkey[0] != nkey[1], "invariant: active keys distinct (0,1)"); CHECK(nact < 3 || (nkey[0] != nkey[2] && nkey[1] != nkey[2]), "invariant: active keys distinct (2)");
  /* every other previously active key keeps its buffer, except the least recently used one when the cache was full and missed */
  for (int t = 0; t < (int)active; t++) {
    if (key[t] == k) continue;
    int evicted = (was < 0 && active == 3 && t == 2);
    int found = -1; for (int u = 0; u < (int)nact; u++) if (nkey[u] == key[t]) found = u;
    if (evicted) CHECK(found < 0, "on a miss with a full cache the least recently used key is evicted");
    else { CHECK(found >= 0, "other active keys stay active"); if (found >= 0) CHECK(nbuf[found] == buf[t], "other active keys keep their buffers"); }
  }
  if (was < 0 && active == 3) CHECK(got == buf[2], "a miss on a full cache reuses the least recently used buffer");
  if (was < 0 && active < 3) CHECK(got == buf[active], "a miss on a non-full cache takes a free buffer");
  REACHED();
}
#ifdef E2_REPLAY
int main(int argc, char** argv) {
  FILE* f = fopen(argv[1], "r"); char fn[64] = ""; char line[256];
  while (f && fgets(line, sizeof line, f)) { int k; long v; if (sscanf(line, "in %d %ld", &k, &v) == 2 && k >= 0 && k < E2_MAXIN) in_vals[k] = v; sscanf(line, "function %63s", fn); }
  if (!strcmp(fn, "h_symmat")) h_symmat(); else if (!strcmp(fn, "h_covmat")) h_covmat(); else if (!strcmp(fn, "h_bandmat")) h_bandmat(); else if (!strcmp(fn, "h_mtf_step")) h_mtf_step(); else { printf("unknown function %s\n", fn); return 2; }
  printf(e2_failed ? "REPLAY-RESULT reproduced\n" : "REPLAY-RESULT not-reproduced\n"); return e2_failed;
}
#endif
