#!/usr/bin/env python3
"""ir2c: translate the LLVM IR (clang-14, typed pointers, -O1, no vectorisation) of small C++ kernels into
plain C that CBMC's C front end accepts.

Memory model: byte addressed.  Every pointer is `uint8_t*`; loads and stores go through casts, struct and
array offsets are computed from the x86-64 data layout.  Integers are kept in unsigned C types (LLVM integers
are sign-agnostic); signed operations cast explicitly.  `nsw`/`nuw` flags and `inbounds` are checked by
explicit assertions (IR2C_UB) so that signed overflow in the source becomes a CBMC property.
Exceptions: __cxa_throw sets `ir_thrown` and the path returns through every frame (invoke -> branch to the
landing pad; plain calls return at once); the harness observes `ir_thrown`.
operator new/delete map to malloc/free.  Unknown externals are declared and left to the harness/stubs.
"""
import re, sys

class T:
    def __init__(s, kind, **kw): s.kind = kind; s.__dict__.update(kw)
    def __repr__(s): return 'T(%s)' % s.kind

class TypeEnv:
    def __init__(s): s.named = {}
    def parse(s, txt):
        t, rest = s._parse(txt.strip())
        return t, rest
    def _parse(s, x):
        x = x.lstrip()
        m = re.match(r'i(\d+)', x)
        if m: t = T('int', bits=int(m.group(1))); x = x[m.end():]
        elif x.startswith('double'): t = T('double'); x = x[6:]
        elif x.startswith('float'): t = T('float'); x = x[5:]
        elif x.startswith('void'): t = T('void'); x = x[4:]
        elif x.startswith('ptr'): t = T('ptr', to=T('int', bits=8)); x = x[3:]
        elif x.startswith('%'):
            m = re.match(r'%("[^"]+"|[\w.$:-]+)', x); t = T('named', name=m.group(1)); x = x[m.end():]
        elif x.startswith('['):
            m = re.match(r'\[\s*(\d+)\s+x\s+', x); n = int(m.group(1)); el, x = s._parse(x[m.end():]); x = x.lstrip(); assert x[0] == ']', x; x = x[1:]; t = T('array', n=n, el=el)
        elif x.startswith('<{') or x.startswith('{'):
            packed = x.startswith('<{'); x = x[2:] if packed else x[1:]
            els = []
            x = x.lstrip()
            if x.startswith('}'): x = x[1:]
            else:
                while True:
                    el, x = s._parse(x); els.append(el); x = x.lstrip()
                    if x.startswith(','): x = x[1:]; continue
                    assert x.startswith('}'), x; x = x[1:]; break
            if packed: x = x.lstrip(); assert x.startswith('>'); x = x[1:]
            t = T('struct', els=els, packed=packed)
        elif x.startswith('<'):
            raise NotImplementedError('vector type: ' + x[:40])
        elif x.startswith('opaque'): t = T('struct', els=[], packed=False); x = x[6:]
        else: raise NotImplementedError('type: ' + x[:60])
        while True:
            x2 = x.lstrip()
            if x2.startswith('*'): t = T('ptr', to=t); x = x2[1:]
            elif x2.startswith('('):      # function type: skip balanced parens
                depth = 0; i = 0
                for i, ch in enumerate(x2):
                    if ch == '(': depth += 1
                    elif ch == ')':
                        depth -= 1
                        if depth == 0: break
                t = T('func', ret=t); x = x2[i+1:]
            else: break
        return t, x
    def resolve(s, t):
        while t.kind == 'named': t = s.named[t.name]
        return t
    def size_align(s, t):
        t = s.resolve(t)
        if t.kind == 'int': b = max(1, (t.bits + 7) // 8); b = 1 if b == 1 else 2 if b == 2 else 4 if b <= 4 else 8 if b <= 8 else 16; return b, min(b, 8) if b < 16 else 16
        if t.kind == 'double': return 8, 8
        if t.kind == 'float': return 4, 4
        if t.kind in ('ptr', 'func'): return 8, 8
        if t.kind == 'array': sz, al = s.size_align(t.el); return sz * t.n, al
        if t.kind == 'struct':
            off = 0; mal = 1
            for el in t.els:
                sz, al = s.size_align(el)
                if t.packed: al = 1
                off = (off + al - 1) // al * al + sz; mal = max(mal, al)
            return (off + mal - 1) // mal * mal, mal
        raise NotImplementedError(t.kind)
    def field_offset(s, t, idx):
        t = s.resolve(t); off = 0
        for i, el in enumerate(t.els):
            sz, al = s.size_align(el)
            if t.packed: al = 1
            off = (off + al - 1) // al * al
            if i == idx: return off, el
            off += sz
        raise IndexError

def ctype(env, t):
    t = env.resolve(t)
    if t.kind == 'int':
        if t.bits == 1: return 'uint8_t'
        if t.bits <= 8: return 'uint8_t'
        if t.bits <= 16: return 'uint16_t'
        if t.bits <= 32: return 'uint32_t'
        if t.bits <= 64: return 'uint64_t'
        raise NotImplementedError('wide int')
    if t.kind == 'double': return 'double'
    if t.kind == 'float': return 'float'
    if t.kind in ('ptr', 'func'): return 'uint8_t*'
    if t.kind == 'void': return 'void'
    if t.kind == 'struct': return 'struct ir_agg_%d' % len(t.els) + '_' + '_'.join(ctype(env, e).replace('*', 'p').replace(' ', '') for e in t.els)
    raise NotImplementedError('ctype ' + t.kind)

def cname(n):
    n = n.strip()
    if n.startswith('"'): n = n[1:-1]
    return re.sub(r'[^A-Za-z0-9_]', '_', n)

def split_top(s, sep=','):
    out = []; depth = 0; cur = ''; q = False
    for ch in s:
        if ch == '"': q = not q
        if not q:
            if ch in '([{<': depth += 1
            elif ch in ')]}>': depth -= 1
            elif ch == sep and depth == 0: out.append(cur); cur = ''; continue
        cur += ch
    if cur.strip(): out.append(cur)
    return [o.strip() for o in out]

ATTRS = set('noundef nonnull signext zeroext nocapture readonly readnone writeonly noalias returned inbounds nsw nuw exact immarg nofree nosync nounwind willreturn dso_local local_unnamed_addr unnamed_addr internal private linkonce_odr weak_odr hidden tail musttail notail fast nnan ninf nsz arcp contract afn reassoc byval sret inreg nest swiftself'.split())

class Fn: pass

class Translator:
    def __init__(s, text, ub_checks=True):
        s.env = TypeEnv(); s.text = text; s.out = []; s.aggs = {}; s.globals = {}; s.funcs = {}; s.decls = {}; s.ub = ub_checks
        s.strip_meta()
        s.parse_module()
    def strip_meta(s):
        lines = []
        for l in s.text.split('\n'):
            if l.startswith(';') or l.startswith('!') or l.startswith('attributes ') or l.startswith('source_filename') or l.startswith('target '): continue
            l = re.sub(r',\s*!\w+(\.\w+)*\s+!\d+', '', l)
            l = re.sub(r'\s+#\d+', '', l)
            if ';' in l and '"' not in l: l = l[:l.index(';')]
            lines.append(l.rstrip())
        s.lines = lines
    def parse_module(s):
        i = 0; L = s.lines
        while i < len(L):
            l = L[i]
            m = re.match(r'(%("[^"]+"|[\w.$:-]+)) = type (.*)$', l)
            if m: t, _ = s.env.parse(m.group(3)); s.env.named[m.group(2)] = t; i += 1; continue
            m = re.match(r'(@("[^"]+"|[\w.$-]+)) = (.*)$', l)
            if m: s.globals[m.group(2)] = m.group(3); i += 1; continue
            if l.startswith('define '):
                body = []; j = i + 1
                while L[j] != '}': body.append(L[j]); j += 1
                s.parse_function(l, body); i = j + 1; continue
            if l.startswith('declare '): s.parse_declare(l); i += 1; continue
            i += 1
    def sig(s, header):
        m = re.search(r'@("[^"]+"|[\w.$-]+)\s*\(', header)
        name = m.group(1)
        pre = header[:m.start()]
        pre = re.sub(r'(align\s+\d+|dereferenceable(_or_null)?\(\d+\)|comdat(\([^)]*\))?|unnamed_addr|local_unnamed_addr)', ' ', pre)
        toks = pre.split()
        rt = [t for t in toks if t not in ATTRS and t not in ('define', 'declare', 'comdat') and not t.startswith('align') and not t.startswith('dereferenceable') and not t.startswith('unnamed') and not t.startswith('#')]
        ret_txt = ' '.join(rt)
        ret, _ = s.env.parse(ret_txt)
        depth = 0; k = m.end() - 1
        for k in range(m.end() - 1, len(header)):
            if header[k] == '(': depth += 1
            elif header[k] == ')':
                depth -= 1
                if depth == 0: break
        args_txt = header[m.end():k]
        params = []; varargs = False
        for a in split_top(args_txt):
            if a == '...': varargs = True; continue
            t, rest = s.env.parse(a)
            rest = re.sub(r'(align|dereferenceable|dereferenceable_or_null)\s*\(?\d+\)?', '', rest)
            rest = re.sub(r'(byval|sret)\([^)]*\)', '', rest)
            names = [w for w in rest.split() if w not in ATTRS]
            params.append((t, names[0] if names else None))
        return name, ret, params, varargs
    def parse_declare(s, l):
        if '@llvm.' in l:
            m = re.search(r'@("[^"]+"|[\w.$-]+)\s*\(', l); s.decls[m.group(1)] = (T('void'), [], False); return
        name, ret, params, va = s.sig(l); s.decls[name] = (ret, params, va)
    def parse_function(s, header, body):
        name, ret, params, va = s.sig(header)
        merged = []; acc = None
        for l in body:
            if acc is not None:
                acc += ' ' + l.strip()
                if l.strip().startswith(']'): merged.append(acc); acc = None
                continue
            if re.match(r'\s*switch ', l) and l.rstrip().endswith('[') : acc = l; continue
            st = l.strip()
            if merged and (st.startswith('to label') or st.startswith('catch ') or st == 'cleanup' or st.startswith('filter ')): merged[-1] += ' ' + st; continue
            merged.append(l)
        body = merged
        f = Fn(); f.name = name; f.ret = ret; f.params = params; f.body = body; f.internal = ' internal ' in header or ' linkonce_odr ' in header or ' private ' in header
        s.funcs[name] = f

    # ---- operands ------------------------------------------------------------------------------------
    def agg(s, t):
        n = ctype(s.env, t)
        if n not in s.aggs: s.aggs[n] = [ctype(s.env, e) for e in s.env.resolve(t).els]
        return n
    def val(s, t, v):
        """C expression for operand v of LLVM type t"""
        v = v.strip(); rt = s.env.resolve(t)
        if v.startswith('%'): return 'v_' + cname(v[1:])
        if v.startswith('@'):
            g = v[1:]
            if g in s.funcs or g in s.decls: return '((uint8_t*)&%s)' % s.fname(g)
            return '((uint8_t*)g_%s)' % cname(g)
        if v in ('null',): return '((uint8_t*)0)'
        if v in ('undef', 'poison'):
            if rt.kind == 'struct': return '(%s){0}' % s.agg(t)
            return '((%s)0)' % ctype(s.env, t)
        if v == 'zeroinitializer':
            if rt.kind == 'struct': return '(%s){0}' % s.agg(t)
            return '((%s)0)' % ctype(s.env, t)
        if v == 'true': return '1'
        if v == 'false': return '0'
        if re.match(r'-?\d+$', v):
            n = int(v); bits = rt.bits if rt.kind == 'int' else 64
            if rt.kind in ('double', 'float'): return '%d.0' % n
            n &= (1 << bits) - 1
            return '((%s)%dULL)' % (ctype(s.env, t), n)
        if re.match(r'-?\d+\.\d+(e[+-]?\d+)?$', v) : return v
        if v.startswith('0x'):
            import struct
            d = struct.unpack('>d', bytes.fromhex(v[2:].rjust(16, '0')))[0]
            return repr(d) if d == d and abs(d) != float('inf') else ('(0.0/0.0)' if d != d else ('(1.0/0.0)' if d > 0 else '(-1.0/0.0)'))
        if v.startswith('getelementptr'):
            m = re.match(r'getelementptr\s+(inbounds\s+)?\((.*)\)$', v)
            parts = split_top(m.group(2))
            base_t, _ = s.env.parse(parts[0])
            pt, pv = s.split_tv(parts[1])
            idx = [s.split_tv(re.sub(r'^inrange\s+', '', p)) for p in parts[2:]]
            return s.gep_expr(base_t, s.val(pt, pv), idx)
        if v.startswith('bitcast') or v.startswith('addrspacecast'):
            m = re.match(r'\w+\s*\((.*)\s+to\s+(.*)\)$', v); tt, vv = s.split_tv(m.group(1)); return s.val(tt, vv)
        if v.startswith('ptrtoint'):
            m = re.match(r'ptrtoint\s*\((.*)\s+to\s+(.*)\)$', v); tt, vv = s.split_tv(m.group(1)); return '((%s)(uintptr_t)%s)' % (ctype(s.env, t), s.val(tt, vv))
        if v.startswith('inttoptr'):
            m = re.match(r'inttoptr\s*\((.*)\s+to\s+(.*)\)$', v); tt, vv = s.split_tv(m.group(1)); return '((uint8_t*)(uintptr_t)%s)' % s.val(tt, vv)
        raise NotImplementedError('operand: ' + v[:80])
    def split_tv(s, txt):
        t, rest = s.env.parse(txt)
        rest = rest.strip()
        while True:
            m = re.match(r'(align\s+\d+|align\(\d+\)|dereferenceable(_or_null)?\(\d+\)|byval\([^)]*\)|sret\([^)]*\)|elementtype\([^)]*\))\s*', rest)
            if m: rest = rest[m.end():]; continue
            toks = rest.split(None, 1)
            if toks and toks[0] in ATTRS: rest = toks[1] if len(toks) > 1 else ''; continue
            break
        return t, rest.strip()
    def gep_expr(s, base_t, base, idx):
        """byte-offset expression; idx = [(type, value)]"""
        terms = []; cur = base_t; first = True
        for (it, iv) in idx:
            ival = s.val(it, iv)
            bits = s.env.resolve(it).bits
            sidx = '((int64_t)(int%d_t)%s)' % (bits if bits in (8, 16, 32, 64) else 64, ival) if bits < 64 else '((int64_t)%s)' % ival
            if first:
                sz, _ = s.env.size_align(cur); terms.append('%s*%d' % (sidx, sz)); first = False; continue
            rc = s.env.resolve(cur)
            if rc.kind == 'array':
                sz, _ = s.env.size_align(rc.el); terms.append('%s*%d' % (sidx, sz)); cur = rc.el
            elif rc.kind == 'struct':
                off, el = s.env.field_offset(rc, int(iv)); terms.append(str(off)); cur = el
            else: raise NotImplementedError('gep into ' + rc.kind)
        return '(%s + (%s))' % (base, ' + '.join(terms) if terms else '0')
    def fname(s, n):
        return 'f_' + cname(n) if n in s.funcs else cname(n)

    # ---- functions -----------------------------------------------------------------------------------
    def proto(s, name, ret, params):
        r = s.agg(ret) if s.env.resolve(ret).kind == 'struct' else ctype(s.env, ret)
        ps = ', '.join('%s %s' % (s.agg(t) if s.env.resolve(t).kind == 'struct' else ctype(s.env, t), 'v_' + cname(n[1:]) if n else 'a%d' % i) for i, (t, n) in enumerate(params)) or 'void'
        return '%s %s(%s)' % (r, name, ps)

    def emit_function(s, f):
        env = s.env; out = []
        decl = {}   # var -> ctype
        code = []
        blocks = []; cur = ('entry0', [])
        for l in f.body:
            m = re.match(r'^("[^"]+"|[\w.$-]+):', l)
            if m: blocks.append(cur); cur = (m.group(1), []); continue
            if l.strip(): cur[1].append(l.strip())
        blocks.append(cur)
        # first block label: the implicit one is numbered after the params
        labels = [b[0] for b in blocks]
        phis = {}   # block -> list of (var, type, [(val, pred)])
        for (lab, ins) in blocks:
            for i in ins:
                m = re.match(r'%("[^"]+"|[\w.$-]+) = phi (.*)$', i)
                if m:
                    t, rest = env.parse(m.group(2))
                    inc = re.findall(r'\[\s*(.*?)\s*,\s*%("[^"]+"|[\w.$-]+)\s*\]', rest)
                    phis.setdefault(lab, []).append((m.group(1), t, inc))
        def L(lab): return 'L_' + cname(lab)
        def setvar(name, t, expr):
            ct = s.agg(t) if env.resolve(t).kind == 'struct' else ctype(env, t)
            decl['v_' + cname(name)] = ct
            return 'v_%s = %s;' % (cname(name), expr)
        def phi_moves(src, dst):
            mv = []
            for (var, t, inc) in phis.get(dst, []):
                for (v, pred) in inc:
                    if pred == src or (src == 'entry0' and pred not in labels and False):
                        mv.append((var, t, v))
            if not mv: return ''
            # parallel copy through temporaries
            o = ''
            for k, (var, t, v) in enumerate(mv):
                ct = s.agg(t) if env.resolve(t).kind == 'struct' else ctype(env, t)
                decl['v_' + cname(var)] = ct
                o += '{ %s t%d = %s;' % (ct, k, s.val(t, v))
            for k, (var, t, v) in enumerate(mv): o += ' v_%s = t%d;' % (cname(var), k)
            o += ' }' * len(mv)
            return o
        # the entry block's real label (for phi preds) is the first unnamed number: find from phi preds if needed
        entry_alias = None
        all_preds = set(p for lst in phis.values() for (_, _, inc) in lst for (_, p) in inc)
        for p in all_preds:
            if p not in labels: entry_alias = p
        def src_name(lab): return entry_alias if (lab == 'entry0' and entry_alias) else lab
        ret_ct = s.agg(f.ret) if env.resolve(f.ret).kind == 'struct' else ctype(env, f.ret)
        def ret_stmt(expr=None):
            if env.resolve(f.ret).kind == 'void': return 'return;'
            return 'return %s;' % (expr if expr is not None else ('(%s){0}' % ret_ct if ret_ct.startswith('struct') else '(%s)0' % ret_ct))
        for (lab, ins) in blocks:
            code.append('%s: ;' % L(lab))
            for i in ins:
                code.extend(s.emit_ins(i, f, lab, setvar, phi_moves, L, ret_stmt, src_name, decl))
        out.append(s.proto(s.fname(f.name), f.ret, f.params))
        out.append('{')
        for v, ct in sorted(decl.items()):
            if v in ['v_' + cname(n[1:]) for (_, n) in f.params if n]: continue
            out.append('  %s %s;' % (ct, v))
        out.extend('  ' + c for c in code)
        out.append('}')
        return '\n'.join(out)

    def emit_ins(s, i, f, lab, setvar, phi_moves, L, ret_stmt, src_name, decl):
        env = s.env; o = []
        m = re.match(r'%("[^"]+"|[\w.$-]+) = (.*)$', i)
        dst = None
        if m: dst = m.group(1); i = m.group(2)
        op = i.split()[0]
        if op == 'phi': return o
        if op in ('add', 'sub', 'mul', 'udiv', 'sdiv', 'urem', 'srem', 'and', 'or', 'xor', 'shl', 'lshr', 'ashr'):
            flags = re.findall(r'\b(nsw|nuw|exact)\b', i)
            rest = re.sub(r'^\w+\s+((nsw|nuw|exact)\s+)*', '', i)
            t, ops = env.parse(rest); a, b = split_top(ops)
            A, B = s.val(t, a), s.val(t, b); bits = env.resolve(t).bits; ct = ctype(env, t); sct = 'int%d_t' % (8 if bits <= 8 else 16 if bits <= 16 else 32 if bits <= 32 else 64)
            mask = '' if bits in (8, 16, 32, 64) else ' & %dULL' % ((1 << bits) - 1)
            cop = {'add': '+', 'sub': '-', 'mul': '*', 'and': '&', 'or': '|', 'xor': '^', 'shl': '<<', 'lshr': '>>'}
            if op in ('add', 'sub', 'mul') and 'nsw' in flags and s.ub and bits >= 32:
                w = 'int64_t' if bits == 32 else '__int128'
                lim = bits - 1
                o.append('IR2C_UB((%s)(%s)%s %s (%s)(%s)%s >= -((%s)1 << %d) && (%s)(%s)%s %s (%s)(%s)%s < ((%s)1 << %d), "signed overflow in source (nsw)");' % (w, sct, A, cop[op], w, sct, B, w, lim, w, sct, A, cop[op], w, sct, B, w, lim))
            if op in cop:
                if op in ('shl', 'lshr'):
                    if s.ub: o.append('IR2C_UB(%s < %d, "shift amount");' % (B, bits))
                e = '(%s)((%s)%s %s (%s)%s)%s' % (ct, ('uint64_t' if bits > 32 else 'uint32_t'), A, cop[op], ('uint64_t' if bits > 32 else 'uint32_t'), B, mask)
            elif op == 'ashr':
                if s.ub: o.append('IR2C_UB(%s < %d, "shift amount");' % (B, bits))
                e = '(%s)((%s)%s >> %s)' % (ct, sct, A, B)
            elif op in ('udiv', 'urem'):
                o.append('IR2C_UB(%s != 0, "division by zero");' % B)
                e = '(%s)(%s %s %s)' % (ct, A, '/' if op == 'udiv' else '%', B)
            else:
                o.append('IR2C_UB(%s != 0, "division by zero");' % B)
                o.append('IR2C_UB(!((%s)%s == (%s)(1ULL << %d) && (%s)%s == -1), "signed division overflow");' % (sct, A, sct, bits - 1, sct, B))
                e = '(%s)((%s)%s %s (%s)%s)' % (ct, sct, A, '/' if op == 'sdiv' else '%', sct, B)
            o.append(setvar(dst, t, e)); return o
        if op in ('fadd', 'fsub', 'fmul', 'fdiv', 'frem'):
            rest = re.sub(r'^\w+\s+((fast|nnan|ninf|nsz|arcp|contract|afn|reassoc)\s+)*', '', i)
            t, ops = env.parse(rest); a, b = split_top(ops); cop = {'fadd': '+', 'fsub': '-', 'fmul': '*', 'fdiv': '/'}
            o.append(setvar(dst, t, '(%s %s %s)' % (s.val(t, a), cop[op], s.val(t, b)))); return o
        if op == 'fneg':
            t, a = env.parse(re.sub(r'^fneg\s+((fast|nnan|ninf|nsz|arcp|contract|afn|reassoc)\s+)*', '', i)); o.append(setvar(dst, t, '(-%s)' % s.val(t, a))); return o
        if op == 'icmp':
            m = re.match(r'icmp (\w+) (.*)$', i); pred = m.group(1); t, ops = env.parse(m.group(2)); a, b = split_top(ops)
            A, B = s.val(t, a), s.val(t, b); rt = env.resolve(t)
            cop = {'eq': '==', 'ne': '!=', 'ugt': '>', 'uge': '>=', 'ult': '<', 'ule': '<=', 'sgt': '>', 'sge': '>=', 'slt': '<', 'sle': '<='}[pred]
            if rt.kind in ('ptr', 'func'):
                if pred in ('eq', 'ne'): e = '(%s %s %s)' % (A, cop, B)
                else: e = '((uintptr_t)%s %s (uintptr_t)%s)' % (A, cop, B)
            elif pred.startswith('s'):
                bits = rt.bits; sct = 'int%d_t' % (8 if bits <= 8 else 16 if bits <= 16 else 32 if bits <= 32 else 64)
                if bits not in (8, 16, 32, 64):
                    sh = (8 if bits <= 8 else 16 if bits <= 16 else 32 if bits <= 32 else 64) - bits
                    e = '((%s)(%s << %d) %s (%s)(%s << %d))' % (sct, A, sh, cop, sct, B, sh)
                else: e = '((%s)%s %s (%s)%s)' % (sct, A, cop, sct, B)
            else: e = '(%s %s %s)' % (A, cop, B)
            o.append(setvar(dst, T('int', bits=1), '(uint8_t)%s' % e)); return o
        if op == 'fcmp':
            m = re.match(r'fcmp\s+((?:fast|nnan|ninf|nsz|arcp|contract|afn|reassoc)\s+)*(\w+) (.*)$', i); pred = m.group(2); t, ops = env.parse(m.group(3)); a, b = split_top(ops)
            A, B = s.val(t, a), s.val(t, b)
            base = {'oeq': '==', 'ogt': '>', 'oge': '>=', 'olt': '<', 'ole': '<=', 'one': '!=', 'ueq': '==', 'ugt': '>', 'uge': '>=', 'ult': '<', 'ule': '<=', 'une': '!='}
            if pred == 'ord': e = '(%s == %s && %s == %s)' % (A, A, B, B)
            elif pred == 'uno': e = '(%s != %s || %s != %s)' % (A, A, B, B)
            elif pred == 'true': e = '1'
            elif pred == 'false': e = '0'
            elif pred[0] == 'o': e = '(%s %s %s)' % (A, base[pred], B) if pred != 'one' else '(%s < %s || %s > %s)' % (A, B, A, B)
            else: e = '(!(%s == %s && %s == %s) || %s %s %s)' % (A, A, B, B, A, base[pred], B)
            o.append(setvar(dst, T('int', bits=1), '(uint8_t)%s' % e)); return o
        if op in ('zext', 'sext', 'trunc', 'bitcast', 'ptrtoint', 'inttoptr', 'sitofp', 'uitofp', 'fptosi', 'fptoui', 'fpext', 'fptrunc', 'addrspacecast'):
            m = re.match(r'\w+ (.*) to (.*)$', i); ft, v = s.split_tv(m.group(1)); tt, _ = env.parse(m.group(2)); V = s.val(ft, v); fr = env.resolve(ft); tr = env.resolve(tt)
            if op == 'zext': e = '(%s)%s' % (ctype(env, tt), V)
            elif op == 'sext':
                fb = fr.bits; sct = 'int%d_t' % (8 if fb <= 8 else 16 if fb <= 16 else 32 if fb <= 32 else 64)
                if fb == 1: e = '(%s)(%s ? ~(%s)0 : 0)' % (ctype(env, tt), V, ctype(env, tt))
                else:
                    tb = 'int%d_t' % (8 if tr.bits <= 8 else 16 if tr.bits <= 16 else 32 if tr.bits <= 32 else 64)
                    e = '(%s)(%s)(%s)%s' % (ctype(env, tt), tb, sct, V)
            elif op == 'trunc':
                e = '(%s)%s' % (ctype(env, tt), V)
                if tr.bits not in (8, 16, 32, 64): e = '(%s)(%s & %dULL)' % (ctype(env, tt), V, (1 << tr.bits) - 1)
            elif op in ('bitcast', 'addrspacecast'):
                if fr.kind in ('ptr', 'func') and tr.kind in ('ptr', 'func'): e = V
                elif fr.kind == 'double' and tr.kind == 'int': e = 'ir_d2u(%s)' % V
                elif fr.kind == 'int' and tr.kind == 'double': e = 'ir_u2d(%s)' % V
                else: raise NotImplementedError('bitcast ' + i)
            elif op == 'ptrtoint': e = '(%s)(uintptr_t)%s' % (ctype(env, tt), V)
            elif op == 'inttoptr': e = '(uint8_t*)(uintptr_t)%s' % V
            elif op == 'sitofp': e = '(%s)(int%d_t)%s' % (ctype(env, tt), 64 if fr.bits > 32 else 32, V)
            elif op == 'uitofp': e = '(%s)%s' % (ctype(env, tt), V)
            elif op == 'fptosi': e = '(%s)(int%d_t)%s' % (ctype(env, tt), 64 if tr.bits > 32 else 32, V)
            elif op == 'fptoui': e = '(%s)%s' % (ctype(env, tt), V)
            else: e = '(%s)%s' % (ctype(env, tt), V)
            o.append(setvar(dst, tt, e)); return o
        if op == 'select':
            parts = split_top(i[len('select'):].strip()); parts[0] = re.sub(r'^((fast|nnan|ninf|nsz)\s+)*', '', parts[0])
            ct_, cv = s.split_tv(parts[0]); t1, v1 = s.split_tv(parts[1]); t2, v2 = s.split_tv(parts[2])
            o.append(setvar(dst, t1, '(%s ? %s : %s)' % (s.val(ct_, cv), s.val(t1, v1), s.val(t2, v2)))); return o
        if op == 'getelementptr':
            rest = re.sub(r'^getelementptr\s+(inbounds\s+)?', '', i); parts = split_top(rest)
            base_t, _ = env.parse(parts[0]); pt, pv = s.split_tv(parts[1]); idx = [s.split_tv(p) for p in parts[2:]]
            o.append(setvar(dst, T('ptr', to=T('int', bits=8)), s.gep_expr(base_t, s.val(pt, pv), idx))); return o
        if op == 'load':
            rest = re.sub(r'^load\s+(volatile\s+)?(atomic\s+)?', '', i); parts = split_top(rest)
            t, _ = env.parse(parts[0]); pt, pv = s.split_tv(parts[1]); P = s.val(pt, pv); rt = env.resolve(t)
            if rt.kind == 'struct': o.append(setvar(dst, t, '*(%s*)%s' % (s.agg(t), P)))
            else: o.append(setvar(dst, t, '*(%s*)%s' % (ctype(env, t), P)))
            if rt.kind == 'int' and rt.bits == 1: o[-1] = setvar(dst, t, '(uint8_t)(*(uint8_t*)%s & 1)' % P)
            return o
        if op == 'store':
            rest = re.sub(r'^store\s+(volatile\s+)?(atomic\s+)?', '', i); parts = split_top(rest)
            t, v = s.split_tv(parts[0]); pt, pv = s.split_tv(parts[1]); rt = env.resolve(t)
            ct = s.agg(t) if rt.kind == 'struct' else ctype(env, t)
            o.append('*(%s*)%s = %s;' % (ct, s.val(pt, pv), s.val(t, v))); return o
        if op == 'alloca':
            parts = split_top(i[len('alloca'):].strip()); t, _ = env.parse(parts[0]); sz, al = env.size_align(t); cnt = '1'
            for p in parts[1:]:
                if not p.startswith('align'): ct_, cv = s.split_tv(p); cnt = s.val(ct_, cv)
            nm = 'a_' + cname(dst)
            decl['%s[%d] __attribute__((aligned(%d)))' % (nm, max(1, sz) * (int(re.sub(r'\D', '', cnt) or 1) if re.match(r'\(\(\w+\)\d+ULL\)$', cnt) or cnt == '1' else 1), max(al, 8))] = 'uint8_t'
            o.append(setvar(dst, T('ptr', to=T('int', bits=8)), nm)); return o
        if op == 'br':
            m = re.match(r'br i1 (.*?), label %("[^"]+"|[\w.$-]+), label %("[^"]+"|[\w.$-]+)', i)
            if m:
                c = s.val(T('int', bits=1), m.group(1))
                o.append('if (%s) { %s goto %s; } else { %s goto %s; }' % (c, phi_moves(src_name(lab), m.group(2)), L(m.group(2)), phi_moves(src_name(lab), m.group(3)), L(m.group(3)))); return o
            m = re.match(r'br label %("[^"]+"|[\w.$-]+)', i)
            o.append('%s goto %s;' % (phi_moves(src_name(lab), m.group(1)), L(m.group(1)))); return o
        if op == 'switch':
            m = re.match(r'switch (.*?), label %("[^"]+"|[\w.$-]+) \[(.*)\]', i); t, v = s.split_tv(m.group(1)); V = s.val(t, v)
            cases = re.findall(r'(i\d+) (-?\d+), label %("[^"]+"|[\w.$-]+)', m.group(3))
            for (ct_, cv, cl) in cases:
                o.append('if (%s == %s) { %s goto %s; }' % (V, s.val(t, cv), phi_moves(src_name(lab), cl), L(cl)))
            o.append('%s goto %s;' % (phi_moves(src_name(lab), m.group(2)), L(m.group(2)))); return o
        if op == 'ret':
            if i.strip() == 'ret void': o.append('return;'); return o
            t, v = s.split_tv(i[4:]); o.append('return %s;' % s.val(t, v)); return o
        if op == 'unreachable': o.append('IR2C_UNREACHABLE(); ' + ret_stmt()); return o
        if op == 'resume': o.append(ret_stmt()); return o
        if op == 'landingpad': o.append(setvar(dst, T('struct', els=[T('ptr', to=T('int', bits=8)), T('int', bits=32)], packed=False), '(%s){0}' % s.agg(T('struct', els=[T('ptr', to=T('int', bits=8)), T('int', bits=32)], packed=False)))); return o
        if op == 'extractvalue':
            parts = split_top(i[len('extractvalue'):].strip()); t, v = s.split_tv(parts[0]); k = int(parts[1]); el = env.resolve(t).els[k]
            o.append(setvar(dst, el, '%s.f%d' % (s.val(t, v), k))); return o
        if op == 'insertvalue':
            parts = split_top(i[len('insertvalue'):].strip()); t, v = s.split_tv(parts[0]); et, ev = s.split_tv(parts[1]); k = int(parts[2])
            o.append(setvar(dst, t, s.val(t, v))); o.append('v_%s.f%d = %s;' % (cname(dst), k, s.val(et, ev))); return o
        if op in ('call', 'invoke') or (op in ('tail', 'musttail', 'notail') and i.split()[1] == 'call'):
            return s.emit_call(i, dst, f, lab, setvar, phi_moves, L, ret_stmt, src_name)
        if op == 'freeze':
            t, v = s.split_tv(i[len('freeze'):]); o.append(setvar(dst, t, s.val(t, v))); return o
        raise NotImplementedError('instruction: ' + i[:100])

    def emit_call(s, i, dst, f, lab, setvar, phi_moves, L, ret_stmt, src_name):
        env = s.env; o = []
        is_invoke = i.startswith('invoke')
        i2 = re.sub(r'^(tail |musttail |notail )?(call|invoke)\s+', '', i)
        i2 = re.sub(r'^((fast|nnan|ninf|nsz|arcp|contract|afn|reassoc|fastcc|ccc)\s+)*', '', i2)
        # return type (with attributes) up to the callee
        m = re.search(r'(@("[^"]+"|[\w.$-]+)|%("[^"]+"|[\w.$-]+))\s*\(', i2)
        # skip a function type like "i32 (i8*, ...)" preceding the callee
        pre = i2[:m.start()]
        pre = re.sub(r'(align\s+\d+|dereferenceable(_or_null)?\(\d+\))', ' ', pre)
        toks = [t for t in pre.split() if t not in ATTRS]
        rt_txt = ' '.join(toks)
        rt, rest_rt = env.parse(rt_txt)
        callee = m.group(1)
        depth = 0; k = m.end() - 1
        for k in range(m.end() - 1, len(i2)):
            if i2[k] == '(': depth += 1
            elif i2[k] == ')':
                depth -= 1
                if depth == 0: break
        args_txt = i2[m.end():k]; tail = i2[k+1:]
        args = []
        for a in split_top(args_txt):
            if not a: continue
            if a.startswith('metadata'): args.append((None, None)); continue
            t, v = s.split_tv(a); args.append((t, v))
        name = callee[1:] if callee.startswith('@') else None
        A = [s.val(t, v) for (t, v) in args if t is not None]
        may_throw = True
        call_expr = None
        if name:
            base = name.strip('"')
            if base.startswith('llvm.lifetime') or base.startswith('llvm.dbg') or base.startswith('llvm.assume') or base.startswith('llvm.experimental.noalias') or base.startswith('llvm.invariant'): return o
            if base.startswith('llvm.memcpy') or base.startswith('llvm.memmove'):
                o.append('%s(%s, %s, (size_t)%s);' % ('memmove' if 'memmove' in base else 'memcpy', A[0], A[1], A[2])); return o
            if base.startswith('llvm.memset'): o.append('memset(%s, (int)%s, (size_t)%s);' % (A[0], A[1], A[2])); return o
            mm = re.match(r'llvm\.(smax|smin|umax|umin)\.i(\d+)', base)
            if mm:
                bits = int(mm.group(2)); sct = 'int%d_t' % bits; t0 = args[0][0]
                if mm.group(1)[0] == 's': e = '((%s)%s %s (%s)%s ? %s : %s)' % (sct, A[0], '>' if 'max' in base else '<', sct, A[1], A[0], A[1])
                else: e = '(%s %s %s ? %s : %s)' % (A[0], '>' if 'max' in base else '<', A[1], A[0], A[1])
                o.append(setvar(dst, t0, e)); return o
            mm = re.match(r'llvm\.abs\.i(\d+)', base)
            if mm: bits = int(mm.group(1)); sct = 'int%d_t' % bits; o.append(setvar(dst, args[0][0], '(%s)((%s)%s < 0 ? -(%s)%s : (%s)%s)' % (ctype(env, args[0][0]), sct, A[0], sct, A[0], sct, A[0]))); return o
            mm = re.match(r'llvm\.(s|u)(add|sub|mul)\.with\.overflow\.i(\d+)', base)
            if mm:
                bits = int(mm.group(3)); sgn = mm.group(1); opn = {'add': '+', 'sub': '-', 'mul': '*'}[mm.group(2)]; ct = ctype(env, args[0][0]); an = s.agg(rt)
                lit = re.match(r'\(\(\w+\)(\d+)ULL\)$', A[1])
                if sgn == 'u' and mm.group(2) == 'mul' and lit and int(lit.group(1)) > 0 and bits == 64:
                    c = int(lit.group(1))     # multiplication by a constant: no 128-bit product needed
                    o.append(setvar(dst, rt, '(%s){ (%s)(%s * %s), (uint8_t)(%s > %dULL) }' % (an, ct, A[0], A[1], A[0], ((1 << 64) - 1) // c))); return o
                if sgn == 'u': wide = '(unsigned __int128)%s %s (unsigned __int128)%s' % (A[0], opn, A[1]); ov = '((%s) >> %d) != 0' % (wide, bits) if mm.group(2) != 'sub' else '%s < %s' % (A[0], A[1])
                else: sct = 'int%d_t' % bits; wide = '(__int128)(%s)%s %s (__int128)(%s)%s' % (sct, A[0], opn, sct, A[1]); ov = '((%s) > (__int128)%d || (%s) < -(__int128)%d - 1)' % (wide, (1 << (bits - 1)) - 1, wide, (1 << (bits - 1)) - 1)
                o.append(setvar(dst, rt, '(%s){ (%s)(%s), (uint8_t)(%s) }' % (an, ct, wide, ov))); return o
            if base.startswith('llvm.fabs'): o.append(setvar(dst, rt, '__builtin_fabs(%s)' % A[0])); return o
            if base.startswith('llvm.sqrt'): o.append(setvar(dst, rt, 'sqrt(%s)' % A[0])); return o
            if base.startswith('llvm.fmuladd') or base.startswith('llvm.fma'): o.append(setvar(dst, rt, '(%s * %s + %s)' % (A[0], A[1], A[2]))); return o
            if base.startswith('llvm.umul.with') : pass
            if base.startswith('llvm.eh.typeid') : o.append(setvar(dst, rt, '0')); return o
            if base.startswith('llvm.trap'): o.append('IR2C_UB(0, "llvm.trap");'); return o
            if base.startswith('llvm.'): raise NotImplementedError('intrinsic ' + base)
            if base in ('_Znwm', '_Znam'): call_expr = 'ir_new(%s)' % A[0]; may_throw = False
            elif base in ('_ZdlPv', '_ZdaPv', '_ZdlPvm', '_ZdaPvm'): call_expr = 'ir_delete(%s)' % A[0]; may_throw = False
            elif base == '__cxa_allocate_exception': call_expr = 'ir_new(%s)' % A[0]; may_throw = False
            elif base == '__cxa_throw': o.append('ir_thrown = 1; ' + (('%s goto %s;' % (phi_moves(src_name(lab), re.search(r'unwind label %("[^"]+"|[\w.$-]+)', tail).group(1)), L(re.search(r'unwind label %("[^"]+"|[\w.$-]+)', tail).group(1)))) if is_invoke else ret_stmt())); return o
            elif base in ('__cxa_free_exception', '__cxa_begin_catch', '__cxa_end_catch', '__clang_call_terminate', '_ZSt9terminatev', '__cxa_guard_abort'):
                if base == '__cxa_begin_catch': o.append('ir_caught = ir_thrown; ir_thrown = 0;');
                if dst: o.append(setvar(dst, rt, '(uint8_t*)0'))
                return o
            elif base == '__cxa_rethrow': o.append('ir_thrown = 1; ' + ret_stmt()); return o
            else:
                fn = s.fname(base); call_expr = '%s(%s)' % (fn, ', '.join(A))
                if base in s.funcs: may_throw = True
                elif base in s.decls: may_throw = base in getattr(s, 'throwing_externals', set())
        else:
            # indirect call through a pointer
            ptypes = ', '.join(ctype(env, t) if env.resolve(t).kind != 'struct' else s.agg(t) for (t, v) in args if t is not None) or 'void'
            rct = ctype(env, rt) if env.resolve(rt).kind != 'struct' else s.agg(rt)
            call_expr = '((%s (*)(%s))%s)(%s)' % (rct, ptypes, 'v_' + cname(callee[1:]), ', '.join(A))
        if dst and env.resolve(rt).kind != 'void': o.append(setvar(dst, rt, call_expr))
        else: o.append(call_expr + ';')
        if is_invoke:
            mm = re.search(r'to label %("[^"]+"|[\w.$-]+) unwind label %("[^"]+"|[\w.$-]+)', tail)
            ok, lp = mm.group(1), mm.group(2)
            o.append('if (ir_thrown) { %s goto %s; } else { %s goto %s; }' % (phi_moves(src_name(lab), lp), L(lp), phi_moves(src_name(lab), ok), L(ok)))
        elif may_throw:
            o.append('if (ir_thrown) ' + ret_stmt())
        return o

    def emit_globals(s):
        out = []; s.ginit = []
        for g, txt in s.globals.items():
            is_ext = 'external' in txt.split()[:4]
            body = re.sub(r'^((private|internal|linkonce_odr|weak_odr|weak|external|dso_local|local_unnamed_addr|unnamed_addr|hidden|thread_local|available_externally|appending)\s+)*(constant|global)\s+', '', txt)
            body = re.sub(r',\s*(comdat.*|align \d+.*|section .*)$', '', body)
            try:
                t, init = s.env.parse(body)
                sz, al = s.env.size_align(t)
            except NotImplementedError:
                continue
            init = init.strip()
            name = 'g_' + cname(g)
            if is_ext or not init: out.append('uint8_t %s[%d] __attribute__((aligned(%d)));' % (name, max(1, sz), max(8, al))); continue
            bytes_ = [0] * max(1, sz); ptrs = []
            try:
                s.const_fill(t, init, 0, bytes_, ptrs)
            except Exception as ex:
                out.append('uint8_t %s[%d] __attribute__((aligned(%d)));  /* initialiser not translated (%s): %s */' % (name, max(1, sz), max(8, al), type(ex).__name__, init[:40].replace('*/', ''))); continue
            out.append('uint8_t %s[%d] __attribute__((aligned(%d))) = {%s};' % (name, max(1, sz), max(8, al), ','.join(str(b) for b in bytes_)))
            for (off, expr) in ptrs: s.ginit.append('*(uint8_t**)(%s + %d) = %s;' % (name, off, expr))
        return out
    def const_fill(s, t, init, off, bytes_, ptrs):
        rt = s.env.resolve(t); sz, _ = s.env.size_align(t); init = init.strip()
        if init in ('zeroinitializer', 'undef', 'poison', 'null'): return
        if rt.kind == 'int':
            if init == 'true': init = '1'
            if init == 'false': init = '0'
            n = int(init) & ((1 << (8 * sz)) - 1)
            for k in range(sz): bytes_[off + k] = (n >> (8 * k)) & 255
            return
        if rt.kind in ('ptr', 'func'):
            ptrs.append((off, s.val(t, init))); return
        if rt.kind == 'double':
            import struct
            if init.startswith('0x'): b = bytes.fromhex(init[2:].rjust(16, '0'))[::-1]
            else: b = struct.pack('<d', float(init))
            for k in range(8): bytes_[off + k] = b[k]
            return
        if rt.kind == 'array' and init.startswith('c"'):
            raw = init[2:init.rindex('"')]; k = 0; p = off
            while k < len(raw):
                if raw[k] == '\\': bytes_[p] = int(raw[k+1:k+3], 16); k += 3
                else: bytes_[p] = ord(raw[k]); k += 1
                p += 1
            return
        if rt.kind == 'array' and init.startswith('['):
            els = split_top(init[1:init.rindex(']')]); esz, _ = s.env.size_align(rt.el)
            for k, e in enumerate(els): et, ev = s.split_tv(e); s.const_fill(et, ev, off + k * esz, bytes_, ptrs)
            return
        if rt.kind == 'struct' and (init.startswith('{') or init.startswith('<{')):
            inner = init[init.index('{') + 1:init.rindex('}')]
            for k, e in enumerate(split_top(inner)):
                foff, ft = s.env.field_offset(rt, k); et, ev = s.split_tv(e); s.const_fill(et, ev, off + foff, bytes_, ptrs)
            return
        raise NotImplementedError('constant ' + init[:40])

    def emit(s, prelude=''):
        fn_code = []
        for n, f in s.funcs.items(): fn_code.append(s.emit_function(f))
        out = ['/* GENERATED by ir2c.py -- do not edit */', '#include <stdint.h>', '#include <stddef.h>', '#include <string.h>', '#include <stdlib.h>', '#include <math.h>', prelude]
        out.append('#ifndef IR2C_UB\n#define IR2C_UB(c, msg) __CPROVER_assert(c, "ir2c: " msg)\n#endif')
        out.append('#ifndef IR2C_UNREACHABLE\n#define IR2C_UNREACHABLE() __CPROVER_assert(0, "ir2c: unreachable executed")\n#endif')
        out.append('int ir_thrown = 0, ir_caught = 0;')
        out.append('#ifndef IR2C_OWN_NEW\nstatic uint8_t* ir_new(uint64_t n) { uint8_t* p = (uint8_t*)malloc(n ? n : 1); IR2C_ASSUME(p != 0); return p; }\nstatic void ir_delete(uint8_t* p) { free(p); }\n#endif')
        out.append('static uint64_t ir_d2u(double d) { uint64_t u; memcpy(&u, &d, 8); return u; }\nstatic double ir_u2d(uint64_t u) { double d; memcpy(&d, &u, 8); return d; }')
        for n, fields in sorted(s.aggs.items()): out.append('%s { %s };' % (n, ' '.join('%s f%d;' % (ft, k) for k, ft in enumerate(fields))))
        out.extend(s.emit_globals())
        for n, (ret, params, va) in s.decls.items():
            base = n.strip('"')
            if base.startswith('llvm.') or base in ('_Znwm', '_Znam', '_ZdlPv', '_ZdaPv', '_ZdlPvm', '_ZdaPvm', '__cxa_allocate_exception', '__cxa_throw', '__cxa_free_exception', '__cxa_begin_catch', '__cxa_end_catch', '__gxx_personality_v0', '__cxa_rethrow', '__clang_call_terminate', '_ZSt9terminatev', 'memcpy', 'memmove', 'memset', 'strlen', 'memcmp', 'free', 'malloc'): continue
            out.append(s.proto(cname(base), ret, params) + ';')
        for n, f in s.funcs.items(): out.append(s.proto(s.fname(n), f.ret, f.params) + ';')
        # aggregates discovered while emitting prototypes/functions
        hdr = []
        for n, fields in sorted(s.aggs.items()):
            line = '%s { %s };' % (n, ' '.join('%s f%d;' % (ft, k) for k, ft in enumerate(fields)))
            if line not in out: hdr.append(line)
        idx = out.index('int ir_thrown = 0, ir_caught = 0;')
        out[idx:idx] = hdr
        out.append('static void ir_init_globals(void) {')
        out.extend('  ' + l for l in getattr(s, 'ginit', []))
        out.append('}')
        out.extend(fn_code)
        return '\n'.join(out) + '\n'

if __name__ == '__main__':
    src = open(sys.argv[1]).read()
    tr = Translator(src)
    open(sys.argv[2], 'w').write(tr.emit('#ifndef IR2C_ASSUME\n#define IR2C_ASSUME(c) __CPROVER_assume(c)\n#endif'))
