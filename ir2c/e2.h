/* Common part of the CBMC harnesses (engine E2).  The same harness source is compiled
 *   - for CBMC together with the generated C (functions f_<name>), inputs nondeterministic;
 *   - natively with -DE2_REPLAY against the g++-built wrapper TU (functions <name>), inputs taken from a
 *     counterexample file, assertions printing REPLAY-FAIL.
 * Every nondeterministic input is drawn through in(k, lo, hi) and recorded in in_vals[k], so that a CBMC
 * trace can be replayed by reading the final values of in_vals[]. */
#include <stdint.h>
#include <stddef.h>
#include <string.h>
#define E2_MAXIN 64
long in_vals[E2_MAXIN];
#ifndef E2_REPLAY
long nondet_long(void);
#define K(name) f_##name
static long in(int k, long lo, long hi) { long v = nondet_long(); __CPROVER_assume(v >= lo && v <= hi); in_vals[k] = v; return v; }
#define CHECK(c, msg) __CPROVER_assert(c, msg)
#define ASSUME(c) __CPROVER_assume(c)
#ifdef WITNESS
#define REACHED() __CPROVER_assert(0, "witness: harness end reachable")
#else
#define REACHED()
#endif
#else
#include <stdio.h>
#include <stdlib.h>
#define K(name) name
static int e2_failed = 0;
static long in(int k, long lo, long hi) { long v = in_vals[k]; if (v < lo) v = lo; if (v > hi) v = hi; return v; }
#define CHECK(c, msg) do { if (!(c)) { printf("REPLAY-FAIL %s\n", msg); e2_failed = 1; } } while (0)
#define ASSUME(c) do { if (!(c)) { printf("REPLAY: assumption not met: %s\n", #c); exit(0); } } while (0)
#define REACHED()
#endif
