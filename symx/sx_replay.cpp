// symx — replay mode: the harness runs against the ordinary double-precision build of gama.
// Inputs and discrete choices come from a counterexample file produced by the symbolic run.
#ifndef SX_REPLAY
#define SX_REPLAY
#endif
#include "sx.h"
#include <iostream>
#include <fstream>
#include <sstream>
#include <map>
#include <cstdlib>
#include <cmath>
#include <typeinfo>

namespace sx {
struct RState {
  std::map<std::string, double> inputs;
  std::vector<int> choices; size_t cpos = 0;
  Policy pol;
  int failures = 0;
  std::string want_label;
  bool quiet = false;
};
static RState& R() { static RState r; return r; }

bool symbolic_mode() { return false; }
Policy& policy() { return R().pol; }
Real input(const std::string& name) { auto it = R().inputs.find(name); return it == R().inputs.end() ? 0.0 : it->second; }
Real constant(const mpq_class& q) { return q.get_d(); }
int choose(int n, const char* what) {
  if (n <= 1) { R().choices.size(); if (n == 1) { if (R().cpos < R().choices.size()) R().cpos++; return 0; } throw Abort{Abort::Abandon, "empty choice"}; }
  int k = 0;
  if (R().cpos < R().choices.size()) k = R().choices[R().cpos];
  R().cpos++;
  if (k < 0 || k >= n) k = 0;
  (void)what; return k;
}
void assume_ge0(Real) {} void assume_pos(Real) {} void assume_ne0(Real) {}
void assume_range(Real, const mpq_class&, const mpq_class&) {}
void assume_le(Real, Real) {} void assume_lt(Real, Real) {}

static void failed(const std::string& label, const std::string& detail) {
  R().failures++;
  std::cout << "REPLAY-FAIL label=" << label << " " << detail << std::endl;
}
void check_zero(Real t, const std::string& label) {
  if (!(std::fabs(t) <= R().pol.replay_tol)) { std::ostringstream o; o.precision(17); o << "value=" << t; failed(label, o.str()); }
}
void check_eq(Real a, Real b, const std::string& label) {
  double sc = std::max(1.0, std::max(std::fabs(a), std::fabs(b)));
  if (!(std::fabs(a - b) <= R().pol.replay_tol * sc)) { std::ostringstream o; o.precision(17); o << "lhs=" << a << " rhs=" << b; failed(label, o.str()); }
}
void check_ge0(Real t, const std::string& label) { if (!(t >= -R().pol.replay_tol)) { std::ostringstream o; o.precision(17); o << "value=" << t; failed(label, o.str()); } }
void check_le(Real a, Real b, const std::string& label) { double sc = std::max(1.0, std::max(std::fabs(a), std::fabs(b))); if (!(a <= b + R().pol.replay_tol * sc)) { std::ostringstream o; o.precision(17); o << "lhs=" << a << " rhs=" << b; failed(label, o.str()); } }
void check_lt(Real a, Real b, const std::string& label) { check_le(a, b, label); }
void check_true(bool c, const std::string& label, const std::string& detail) { if (!c) failed(label, detail); }
void fail(const std::string& label, const std::string& detail) { failed(label, detail); }
void reached(const std::string&) {}
void note(const std::string&, const std::string&) {}
bool is_const(Real) { return true; }
bool is_rational(Real t, mpq_class* out) { if (out) *out = mpq_class(t); return true; }
bool mentions_symbols(Real) { return false; }
std::string show(Real t) { std::ostringstream o; o.precision(17); o << t; return o.str(); }
f64 numeric(Real t) { return t; }
f64 numeric0(Real t) { return t; }
void magic_reset() {}

int run_main(int argc, char** argv, const char* harness_name, CaseGen gen) {
  Options opt; std::string file, only;
  for (int i = 1; i < argc; i++) {
    std::string a = argv[i];
    if (a == "--replay" && i + 1 < argc) file = argv[++i];
    else if (a == "--tier" && i + 1 < argc) opt.tier = argv[++i];
    else if (a == "--seed" && i + 1 < argc) opt.seed = atol(argv[++i]);
    else if (a == "--case" && i + 1 < argc) only = argv[++i];
    else if (a == "--prop" && i + 1 < argc) opt.prop = argv[++i];
  }
  if (!file.empty()) {
    std::ifstream f(file);
    if (!f) { std::cerr << "cannot read " << file << "\n"; return 2; }
    std::string line;
    while (std::getline(f, line)) {
      std::istringstream ls(line); std::string k; ls >> k;
      if (k == "case") { std::getline(ls, only); while (!only.empty() && only[0] == ' ') only.erase(0, 1); }
      else if (k == "tier") ls >> opt.tier;
      else if (k == "seed") ls >> opt.seed;
      else if (k == "prop") ls >> opt.prop;
      else if (k == "label") ls >> R().want_label;
      else if (k == "choices") { int c; while (ls >> c) R().choices.push_back(c); }
      else if (k == "input") { std::string n; double v; ls >> n >> v; R().inputs[n] = v; }
    }
  }
  // thorough tier: the families are generated for three consecutive seeds (the seed-dependent members differ, fixed members repeat);
  // cases of the later seeds carry the suffix #s<k>, so a replay file names its case uniquely
  std::vector<Case> cases;
  { int nseeds = (opt.tier == "thorough") ? 3 : 1;
    for (int k = 0; k < nseeds; k++) { Options o2 = opt; o2.seed = opt.seed + k; std::vector<Case> t; gen(o2, t); for (auto& c : t) { if (k > 0) c.name += "#s" + std::to_string(k); cases.push_back(c); } } }
  for (auto& c : cases) {
    if (c.name != only) continue;
    std::cout << "REPLAY harness=" << harness_name << " case=" << c.name << std::endl;
    try { c.run(); }
    catch (Abort& a) { if (a.kind != Abort::Abandon) failed("abort", a.why); }
    catch (std::exception& e) { failed("uncaught-exception", std::string(typeid(e).name()) + ": " + e.what()); }
    catch (...) { failed("uncaught-exception", "non-std exception"); }
    if (R().failures) { std::cout << "REPLAY-RESULT reproduced failures=" << R().failures << std::endl; return 1; }
    std::cout << "REPLAY-RESULT not-reproduced" << std::endl; return 0;
  }
  std::cerr << "case not found: " << only << "\n";
  return 2;
}
}
