// Symbolic build only: the quantile / distribution approximations of gnu_gama/statan.cpp are numerical
// approximations of transcendental functions (limit L4); here they are UNINTERPRETED functions of their
// arguments (congruence only), so that "the confidence coefficient is Student((1-p)/2, dof)" can be stated
// as equality of applications.  Their accuracy is property C17 (not applicable to this technique).
#include <gnu_gama/statan.h>
namespace GNU_gama {
double Student(double alfa, int N) { return sx::uf("Student", {alfa, SymReal(N)}); }
double Normal(double alfa) { return sx::uf("Normal", {alfa}); }
void NormalDistribution(double x, double& D, double& f) { D = sx::uf("NormalDistribution_D", {x}); f = sx::uf("NormalDistribution_f", {x}); }
double KSprob(double x) { return sx::uf("KSprob", {x}); }
void KStest(double[], int, double (*)(double), double& ks, double& prob) { ks = sx::uf("KStest_ks", {}); prob = sx::uf("KStest_prob", {}); }
double Chi_square(double p, int n) { return sx::uf("Chi_square", {p, SymReal(n)}); }
}
