// compiled with the scalar substitution (prefix.h)
#include "svd_contract.h"
namespace sx {
static std::vector<SvdFactors>& reg() { static std::vector<SvdFactors> r; return r; }
static long uses = 0;
void svd_register(const SvdFactors& f) { reg().push_back(f); }
void svd_clear() { reg().clear(); }
long svd_contract_uses() { return uses; }
void svd_contract(int m, int n, GNU_gama::Mat<SymReal, int, GNU_gama::Exception::matvec>& U,
                  GNU_gama::Vec<SymReal, int, GNU_gama::Exception::matvec>& W,
                  GNU_gama::Mat<SymReal, int, GNU_gama::Exception::matvec>& V)
{
  for (const SvdFactors& f : reg()) {
    if (f.m != m || f.n != n) continue;
    bool same = true;
    for (int i = 1; i <= m && same; i++) for (int j = 1; j <= n; j++) {
      mpq_class q; SymReal d = U(i, j) - f.A[(i - 1) * n + (j - 1)];
      if (!(sx::is_rational(d, &q) && q == 0)) { same = false; break; }
    }
    if (!same) continue;
    for (int i = 1; i <= m; i++) for (int j = 1; j <= n; j++) U(i, j) = f.U[(i - 1) * n + (j - 1)];
    for (int j = 1; j <= n; j++) W(j) = f.W[j - 1];
    for (int i = 1; i <= n; i++) for (int j = 1; j <= n; j++) V(i, j) = f.V[(i - 1) * n + (j - 1)];
    uses++;
    return;
  }
  throw sx::Abort{sx::Abort::Unsupported, "SVD requested for a matrix without a registered exact decomposition"};
}
}
