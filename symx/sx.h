// symx — symbolic execution of the real gama sources by scalar substitution (engine E1).
//
// Two build modes of the SAME harness sources:
//   symbolic (default):  every `double` of the translation unit is SymReal (see prefix.h);
//                        a SymReal names a polynomial over Q in free symbols and atoms,
//                        comparisons are decided by z3, both outcomes explored by re-execution.
//   replay (-DSX_REPLAY): sx::Real is a plain double, inputs/choices come from a counterexample
//                        file, assertions compare with a tolerance.  Used to confirm a solver
//                        model against the ordinary double-precision build of gama.
#pragma once
#include <cstdint>
#include <string>
#include <vector>
#include <map>
#include <functional>
#include <iosfwd>
#include <type_traits>
#include <limits>
#include <cmath>
#include <gmpxx.h>

namespace sx {
typedef double f64;                 // the machine double, usable after `#define double SymReal`
struct Abort {                      // ends the current path
  enum Kind { Budget, Infeasible, Unknown, Unsupported, Fault, Abandon } kind;
  std::string why;
};
}

#ifndef SX_REPLAY
// --------------------------------------------------------------------------------------
//                                   symbolic mode
// --------------------------------------------------------------------------------------
struct SymReal;
namespace sx {
  SymReal  from_f64(f64);  uint32_t mk_i64(long long);  uint32_t mk_u64(unsigned long long);
  bool     truth(SymReal);                 // x != 0, decided by the solver (may fork)
  long long to_integer(SymReal);           // truncation toward zero (forks over feasible values)
  f64      approx(SymReal);                // numeric value of a constant term (NaN if symbolic)
  enum : uint32_t { TAG_CONST = 0x5AC00000u, TAG_TERM = 0x5A170000u, TAG_MASK = 0xFFFF0000u };
}

struct SymReal {
  uint32_t tag, id;                        // POD, 8 bytes, layout-compatible with double storage
  SymReal() = default;
  template<class T, class = std::enable_if_t<std::is_arithmetic<T>::value>>
  SymReal(T x) {
    if (std::is_floating_point<T>::value) { *this = sx::from_f64((sx::f64)x); return; }
    tag = sx::TAG_CONST;
    if (std::is_signed<T>::value) id = sx::mk_i64((long long)x);
    else                          id = sx::mk_u64((unsigned long long)x);
  }
  explicit operator bool() const { return sx::truth(*this); }
  explicit operator int() const { return (int)sx::to_integer(*this); }
  explicit operator long() const { return (long)sx::to_integer(*this); }
  explicit operator long long() const { return sx::to_integer(*this); }
  explicit operator unsigned() const { return (unsigned)sx::to_integer(*this); }
  explicit operator unsigned long() const { return (unsigned long)sx::to_integer(*this); }
  explicit operator unsigned long long() const { return (unsigned long long)sx::to_integer(*this); }
  explicit operator short() const { return (short)sx::to_integer(*this); }
  explicit operator char() const { return (char)sx::to_integer(*this); }
  explicit operator float() const { return (float)sx::approx(*this); }
  explicit operator long double() const { return (long double)sx::approx(*this); }
  SymReal& operator+=(SymReal o); SymReal& operator-=(SymReal o);
  SymReal& operator*=(SymReal o); SymReal& operator/=(SymReal o);
  SymReal operator-() const; SymReal operator+() const { return *this; }
  SymReal& operator++(); SymReal operator++(int); SymReal& operator--(); SymReal operator--(int);
};
static_assert(sizeof(SymReal) == 8, "SymReal must have the size of double");
static_assert(std::is_trivial<SymReal>::value, "SymReal must be trivial");

SymReal operator+(SymReal, SymReal); SymReal operator-(SymReal, SymReal);
SymReal operator*(SymReal, SymReal); SymReal operator/(SymReal, SymReal);
bool operator<(SymReal, SymReal);  bool operator<=(SymReal, SymReal);
bool operator>(SymReal, SymReal);  bool operator>=(SymReal, SymReal);
bool operator==(SymReal, SymReal); bool operator!=(SymReal, SymReal);
inline bool operator!(SymReal a) { return !sx::truth(a); }

#define SX_MIXED(R, op) \
  template<class T, class = std::enable_if_t<std::is_arithmetic<T>::value>> inline R operator op(SymReal a, T b) { return a op SymReal(b); } \
  template<class T, class = std::enable_if_t<std::is_arithmetic<T>::value>> inline R operator op(T a, SymReal b) { return SymReal(a) op b; }
SX_MIXED(SymReal, +) SX_MIXED(SymReal, -) SX_MIXED(SymReal, *) SX_MIXED(SymReal, /)
SX_MIXED(bool, <) SX_MIXED(bool, <=) SX_MIXED(bool, >) SX_MIXED(bool, >=) SX_MIXED(bool, ==) SX_MIXED(bool, !=)
#undef SX_MIXED

std::ostream& operator<<(std::ostream&, SymReal);
std::istream& operator>>(std::istream&, SymReal&);

// <cmath> surface used by the gama sources
SymReal sqrt(SymReal); SymReal fabs(SymReal); SymReal abs(SymReal);
SymReal sin(SymReal); SymReal cos(SymReal); SymReal tan(SymReal);
SymReal asin(SymReal); SymReal acos(SymReal); SymReal atan(SymReal);
SymReal atan2(SymReal, SymReal); SymReal pow(SymReal, SymReal); SymReal fmod(SymReal, SymReal);
SymReal exp(SymReal); SymReal log(SymReal); SymReal log10(SymReal);
SymReal floor(SymReal); SymReal ceil(SymReal); SymReal round(SymReal); SymReal trunc(SymReal);
SymReal hypot(SymReal, SymReal); SymReal fmax(SymReal, SymReal); SymReal fmin(SymReal, SymReal);
SymReal modf(SymReal, SymReal*);
bool isnan(SymReal); bool isinf(SymReal); bool isfinite(SymReal); bool signbit(SymReal);
#define SX_MIXED2(f) \
  template<class T, class = std::enable_if_t<std::is_arithmetic<T>::value>> inline SymReal f(SymReal a, T b) { return f(a, SymReal(b)); } \
  template<class T, class = std::enable_if_t<std::is_arithmetic<T>::value>> inline SymReal f(T a, SymReal b) { return f(SymReal(a), b); }
SX_MIXED2(atan2) SX_MIXED2(pow) SX_MIXED2(fmod) SX_MIXED2(hypot) SX_MIXED2(fmax) SX_MIXED2(fmin)
#undef SX_MIXED2

namespace std {
  using ::sqrt; using ::fabs; using ::abs; using ::sin; using ::cos; using ::tan; using ::asin; using ::acos;
  using ::atan; using ::atan2; using ::pow; using ::fmod; using ::exp; using ::log; using ::log10;
  using ::floor; using ::ceil; using ::round; using ::trunc; using ::hypot; using ::fmax; using ::fmin; using ::modf;
  using ::isnan; using ::isinf; using ::isfinite; using ::signbit;
  // min/max as value functions: one disjunctive atom instead of a fork
  SymReal max(SymReal a, SymReal b);
  SymReal min(SymReal a, SymReal b);
  template<> struct numeric_limits<SymReal> {
    static constexpr bool is_specialized = true, is_signed = true, is_integer = false, is_exact = false,
      has_infinity = false, has_quiet_NaN = false, has_signaling_NaN = false, is_iec559 = false,
      is_bounded = true, is_modulo = false, traps = false, tinyness_before = false;
    static constexpr int digits = 53, digits10 = 15, max_digits10 = 17, radix = 2,
      min_exponent = -1021, min_exponent10 = -307, max_exponent = 1024, max_exponent10 = 308;
    static SymReal epsilon() { return SymReal(numeric_limits<sx::f64>::epsilon()); }
    static SymReal max() { return SymReal(numeric_limits<sx::f64>::max()); }
    static SymReal min() { return SymReal(numeric_limits<sx::f64>::min()); }
    static SymReal lowest() { return SymReal(numeric_limits<sx::f64>::lowest()); }
  };
}
#endif // !SX_REPLAY

// --------------------------------------------------------------------------------------
//                        harness API (identical in both modes)
// --------------------------------------------------------------------------------------
namespace sx {
#ifndef SX_REPLAY
  typedef SymReal Real;
#else
  typedef double Real;
#endif

  // ---- inputs -------------------------------------------------------------------------
  Real input(const std::string& name);                 // unconstrained real input
  Real constant(const mpq_class& q);                   // exact rational constant
  inline Real rat(long n, long d = 1) { return constant(mpq_class(n, d)); }
  int  choose(int n, const char* what);                // exhaustive fork over 0..n-1
  void assume_ge0(Real t); void assume_pos(Real t); void assume_ne0(Real t);
  void assume_range(Real t, const mpq_class& lo, const mpq_class& hi);   // lo <= t <= hi
  void assume_le(Real a, Real b); void assume_lt(Real a, Real b);

  // ---- assertions (each is one solver query over all symbolic inputs of the path) ------
  void check_zero(Real t, const std::string& label);
  void check_eq(Real a, Real b, const std::string& label);
  void check_ge0(Real t, const std::string& label);    // t >= 0 for all inputs
  void check_le(Real a, Real b, const std::string& label);
  void check_lt(Real a, Real b, const std::string& label);
  void check_true(bool native_condition, const std::string& label, const std::string& detail = "");
  void fail(const std::string& label, const std::string& detail);
  void reached(const std::string& site);               // non-vacuity marker
  void note(const std::string& key, const std::string& value);   // goes to evidence samples

  // ---- introspection --------------------------------------------------------------------
  bool is_const(Real t);                               // no symbol at all
  bool is_rational(Real t, mpq_class* out = nullptr);  // constant without radicals
  bool mentions_symbols(Real t);                       // at least one free input
  std::string show(Real t);
  f64  numeric(Real t);                                // approximate value (constants) / value (replay)
  f64  numeric0(Real t);                               // approximate value with every free symbol set to 0 (polynomial part only) / value (replay)
  bool symbolic_mode();

  // policy switches for the current case (reset at each path start)
  struct Policy {
    bool div0_is_violation = false;      // feasible division by zero reported as violation
    bool sqrtneg_is_violation = false;   // feasible sqrt of a negative value reported as violation
    bool uninit_is_violation = true;     // an assertion term that mentions uninitialised storage
    long max_paths = 4000;               // per case
    long max_branches = 200000;          // per path: symbolic branch points
    unsigned solver_timeout_ms = 20000;  // per query (branch feasibility, assertions)
    unsigned aux_timeout_ms = 2000;      // auxiliary feasibility (divisor == 0); unknown => assumed away and counted
    f64  replay_tol = 1e-6;
  };
  Policy& policy();

  // ---- cases and main -------------------------------------------------------------------
  struct Case {
    std::string name;                 // unique, stable: used for sharding and replay
    std::string family;               // evidence grouping
    std::function<void()> run;        // executed once per explored path
  };
  struct Options { std::string tier = "quick"; long seed = 0; std::string prop; };
  typedef std::function<void(const Options&, std::vector<Case>&)> CaseGen;
  int run_main(int argc, char** argv, const char* harness_name, CaseGen gen);

#ifndef SX_REPLAY
  Real uf(const std::string& name, std::initializer_list<Real> args);   // uninterpreted function application
  Real derivative(Real term, Real var);                  // d term / d var for a term polynomial in the free symbol var
  Real substitute(Real term, Real var, Real value);      // term with the free symbol var replaced by value
#endif
  // magic literals (symbolic numbers travelling through text)
  void magic_reset();
}
