// Force-included in front of every translation unit of the symbolic build (g++ -include).
// All standard headers the tree uses are pulled in FIRST, with the real `double`; afterwards
// `double` names the symbolic scalar, so every floating-point variable, member, parameter and
// template argument of the gama sources becomes a solver term while integers, pointers,
// containers, strings, virtual calls and exceptions execute natively.
#ifndef SX_PREFIX_H
#define SX_PREFIX_H
#include <algorithm>
#include <array>
#include <bitset>
#include <cassert>
#include <cctype>
#include <cfloat>
#include <chrono>
#include <cinttypes>
#include <climits>
#include <cmath>
#include <complex>
#include <cstdarg>
#include <cstddef>
#include <cstdint>
#include <cstdio>
#include <cstdlib>
#include <cstring>
#include <ctime>
#include <deque>
#include <exception>
#include <fstream>
#include <functional>
#include <initializer_list>
#include <iomanip>
#include <iostream>
#include <iterator>
#include <limits>
#include <list>
#include <locale>
#include <map>
#include <memory>
#include <numeric>
#include <queue>
#include <random>
#include <regex>
#include <set>
#include <sstream>
#include <stack>
#include <stdexcept>
#include <string>
#include <tuple>
#include <typeinfo>
#include <unordered_map>
#include <unordered_set>
#include <utility>
#include <vector>
#include <math.h>
#include <stdlib.h>
#include <stdio.h>
#include <string.h>
#include <expat.h>
#include <gmpxx.h>
#include "sx.h"
#define double SymReal
#define float SymReal
#define volatile
#ifdef SX_WITH_GAMA
// the Golub-Reinsch iteration cannot run in exact arithmetic: declare the contract stub before any
// translation unit can instantiate the generic member (definitions: build/gen/svd_stub.cpp)
#include <matvec/svd.h>
namespace GNU_gama {
  template<> void SVD<SymReal,int,Exception::matvec>::svd();
  template<> void SVD<SymReal,int,Exception::matvec>::set_inv_W();
}
#endif
#endif
