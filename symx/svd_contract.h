// Contract stub of the singular value decomposition (symbolic build only, see gen_svd_stub.py).
#pragma once
#include <matvec/matvec.h>
#include <vector>
namespace sx {
  struct SvdFactors { int m = 0, n = 0; std::vector<SymReal> A, U, W, V; };   // row-major; U is m x n, V n x n
  void svd_register(const SvdFactors& f);
  void svd_clear();
  long svd_contract_uses();
  void svd_contract(int m, int n, GNU_gama::Mat<SymReal, int, GNU_gama::Exception::matvec>& U,
                    GNU_gama::Vec<SymReal, int, GNU_gama::Exception::matvec>& W,
                    GNU_gama::Mat<SymReal, int, GNU_gama::Exception::matvec>& V);
}
