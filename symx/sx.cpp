// symx engine — symbolic mode.  Compiled WITHOUT the `double` substitution.
#include "sx.h"
#include <execinfo.h>
#include <z3++.h>
#include <algorithm>
#include <unordered_map>
#include <deque>
#include <set>
#include <sstream>
#include <fstream>
#include <iostream>
#include <iomanip>
#include <chrono>
#include <cstring>
#include <cstdlib>
#include <cassert>
#include <memory>
#include <typeinfo>

namespace sx {

typedef uint16_t Var;
typedef std::vector<Var> Mono;                 // sorted, with repetition
typedef std::map<Mono, mpq_class> Poly;        // no zero coefficients

static double now_s() {
  using namespace std::chrono;
  return duration<double>(steady_clock::now().time_since_epoch()).count();
}

enum VKind { V_FREE, V_UNINIT, V_SQRT, V_ABS, V_QUOT, V_ANGLE, V_SIN, V_COS, V_UF, V_MAX, V_MIN, V_INT };

struct VarInfo {
  VKind kind = V_FREE;
  std::string name;
  std::vector<Poly> args;
  std::string uf;
  bool has_sq = false; Poly sq;         // rewriting  v*v -> sq
  int partner = -1;                     // SIN <-> COS of the same argument
  uint32_t active_gen = 0;              // constraints asserted in path #gen
  bool is_int = false;
  int const_state = 0;                  // memo of "no free symbol inside" (0 unknown, 1 constant, 2 not)
  int num_state = 0; std::shared_ptr<mpf_class> num;      // memo of the numeric value of a constant atom (0 unknown, 1 known, 2 not evaluable)
};

struct Violation {
  std::string label, kind, detail, term;
  std::vector<int> choices, decisions;
  std::vector<std::pair<std::string, std::pair<std::string, double>>> inputs;
};

struct CaseStats {
  long paths = 0, forks = 0, branch_points = 0, q_sat = 0, q_unsat = 0, q_unknown = 0;
  long asserts = 0, nf_trivial = 0, solver_proved = 0, native_checks = 0, interval_decided = 0, relaxed_unsat = 0;
  long div0_assumed = 0, sqrtneg_assumed = 0, aux_unknown = 0;
  long faults = 0, abandoned = 0, exceptions = 0, symbolic_paths = 0, uninit_reads = 0;
  double solver_s = 0, wall_s = 0;
  size_t max_symbols = 0;
  std::map<std::string, long> reached;
  std::vector<std::pair<std::string, std::string>> notes;
  std::vector<Violation> violations;
  std::vector<std::string> inconclusive;
  std::set<std::string> nontrivial_sites;
  std::vector<std::string> smt_dumps;
};

static const uint32_t POISON_HEAP = 0xA5A5A5A5u, POISON_STACK = 0xFEFEFEFEu;

struct Engine {
  z3::context ctx;
  bool in_path = false;
  struct Cons { z3::expr f; std::vector<Var> vars; bool lin; };      // lin: linear in symbols and in atoms whose definitions are linear
  std::vector<Cons> pc;                                  // path condition, sliced per query
  std::unordered_map<Var, std::vector<int>> pc_idx;      // variable -> conjuncts mentioning it
  std::unordered_map<Var, std::vector<Var>> users;       // variable -> atoms defined over it (persistent)
  std::set<Var> pc_rel;                                  // variables mentioned by the path condition, with the arguments of such atoms
  std::map<Var, std::pair<mpq_class, mpq_class>> box;     // assumed range of a symbol (assume_range on a single symbol), per path
  std::unique_ptr<z3::model> model;                      // model of the last satisfiable query that asked for one
  std::deque<VarInfo> vars;                   // deque: references to entries stay valid while atoms are created
  std::vector<z3::expr> zvars;
  std::unordered_map<std::string, Var> var_by_key;
  // persistent rational constants
  std::deque<Poly> cpolys;
  std::unordered_map<std::string, uint32_t> const_by_key;
  // per-path terms
  std::deque<Poly> terms;
  uint32_t gen = 1;
  // exploration
  std::vector<int> prefix;        // decisions to follow
  std::vector<int> decisions;     // decisions taken on this path (forks only)
  std::vector<int> choices;       // results of choose() on this path
  size_t dpos = 0;
  std::vector<std::vector<int>> worklist;
  long branches_this_path = 0;
  long uninit_counter = 0;
  bool path_symbolic = false;
  Policy pol;
  CaseStats* st = nullptr;
  std::string smt_dir;
  long smt_count = 0;
  Poly zero;
  std::map<double, Poly> magic;   // magic literal -> term
  std::map<std::string, double> magic_of;
  bool in_engine = false;
  std::ostream* log = nullptr;
  Engine() { cpolys.push_back(Poly()); }
};
static Engine& E() { static Engine* e = new Engine; return *e; }

// ---------------------------------------------------------------------------------------
// polynomials
// ---------------------------------------------------------------------------------------
static bool p_is_rational(const Poly& p, mpq_class* c = nullptr) {
  if (p.empty()) { if (c) *c = 0; return true; }
  if (p.size() == 1 && p.begin()->first.empty()) { if (c) *c = p.begin()->second; return true; }
  return false;
}
static Poly p_const(const mpq_class& c) { Poly p; if (c != 0) p[Mono()] = c; return p; }
static Poly p_var(Var v) { Poly p; p[Mono{v}] = 1; return p; }
static void p_addto(Poly& a, const Mono& m, const mpq_class& c) {
  if (c == 0) return;
  auto it = a.find(m);
  if (it == a.end()) a.emplace(m, c);
  else { it->second += c; if (it->second == 0) a.erase(it); }
}
static Poly p_add(const Poly& a, const Poly& b) { Poly r = a; for (auto& kv : b) p_addto(r, kv.first, kv.second); return r; }
static Poly p_neg(const Poly& a) { Poly r = a; for (auto& kv : r) kv.second = -kv.second; return r; }
static Poly p_sub(const Poly& a, const Poly& b) { Poly r = a; for (auto& kv : b) p_addto(r, kv.first, -kv.second); return r; }
static Poly p_scale(const Poly& a, const mpq_class& c) { Poly r; if (c == 0) return r; for (auto& kv : a) r[kv.first] = kv.second * c; return r; }

// add coef*m to out, rewriting squares of atoms that have a defining square
static void p_add_mono(Poly& out, const Mono& m, const mpq_class& coef, int depth = 0) {
  if (coef == 0) return;
  auto& vars = E().vars;
  for (size_t i = 0; i + 1 < m.size(); i++) {
    if (m[i] == m[i + 1] && vars[m[i]].has_sq) {
      Mono rest; rest.reserve(m.size());
      for (size_t k = 0; k < m.size(); k++) if (k != i && k != i + 1) rest.push_back(m[k]);
      const Poly& sq = vars[m[i]].sq;
      if (depth > 64) throw Abort{Abort::Unsupported, "square rewriting too deep"};
      for (auto& kv : sq) {
        Mono mm; mm.reserve(rest.size() + kv.first.size());
        std::merge(rest.begin(), rest.end(), kv.first.begin(), kv.first.end(), std::back_inserter(mm));
        p_add_mono(out, mm, coef * kv.second, depth + 1);
      }
      return;
    }
  }
  p_addto(out, m, coef);
}
static Poly p_mul(const Poly& a, const Poly& b) {
  Poly r;
  if (a.empty() || b.empty()) return r;
  mpq_class c;
  if (p_is_rational(a, &c)) return p_scale(b, c);
  if (p_is_rational(b, &c)) return p_scale(a, c);
  if (a.size() * b.size() > 4000000) throw Abort{Abort::Budget, "polynomial product too large"};
  for (auto& x : a) for (auto& y : b) {
    Mono m; m.reserve(x.first.size() + y.first.size());
    std::merge(x.first.begin(), x.first.end(), y.first.begin(), y.first.end(), std::back_inserter(m));
    p_add_mono(r, m, x.second * y.second);
  }
  return r;
}
static std::string p_key(const Poly& p) {
  std::string s;
  for (auto& kv : p) {
    s += kv.second.get_str(); s += '*';
    for (Var v : kv.first) { s += std::to_string(v); s += '.'; }
    s += '+';
  }
  return s;
}
static std::string p_show(const Poly& p, size_t maxlen = 600) {
  if (p.empty()) return "0";
  std::string s; bool first = true;
  for (auto& kv : p) {
    if (!first) s += " + "; first = false;
    s += kv.second.get_str();
    for (Var v : kv.first) { s += "*"; s += E().vars[v].name; }
    if (s.size() > maxlen) { s += " ..."; break; }
  }
  return s;
}
// leading (last in map order) coefficient
static mpq_class p_lead(const Poly& p) { return p.rbegin()->second; }
static bool p_has_kind(const Poly& p, VKind k) {
  for (auto& kv : p) for (Var v : kv.first) if (E().vars[v].kind == k) return true;
  return false;
}
static bool p_has_free(const Poly& p) {
  for (auto& kv : p) for (Var v : kv.first) { VKind k = E().vars[v].kind; if (k == V_FREE || k == V_UNINIT) return true; }
  return false;
}
static bool p_is_const(const Poly& p);
static bool var_is_const(Var v) {                   // memoised per atom (the arguments of an atom never change)
  VarInfo& vi = E().vars[v];
  if (vi.const_state) return vi.const_state == 1;
  bool c = !(vi.kind == V_FREE || vi.kind == V_UNINIT || vi.kind == V_INT);
  if (c) for (size_t i = 0; i < E().vars[v].args.size(); i++) if (!p_is_const(E().vars[v].args[i])) { c = false; break; }
  E().vars[v].const_state = c ? 1 : 2;
  return c;
}
static bool p_is_const(const Poly& p) {            // no free symbol, directly or inside atoms
  for (auto& kv : p) for (Var v : kv.first) if (!var_is_const(v)) return false;
  return true;
}

// ---------------------------------------------------------------------------------------
// z3 glue
// ---------------------------------------------------------------------------------------
static z3::expr z_of(const Poly& p) {
  Engine& e = E();
  if (p.empty()) return e.ctx.real_val(0);
  z3::expr_vector sum(e.ctx);
  for (auto& kv : p) {
    z3::expr m = e.ctx.real_val(kv.second.get_str().c_str());
    bool unit = (kv.second == 1);
    z3::expr t = m; bool have = !unit;
    for (Var v : kv.first) { if (!have) { t = e.zvars[v]; have = true; } else t = t * e.zvars[v]; }
    if (!have) t = m;
    sum.push_back(t);
  }
  if (sum.size() == 1) return sum[0];
  return z3::sum(sum);
}

static void vars_of(const Poly& p, std::set<Var>& out) { for (auto& kv : p) for (Var v : kv.first) out.insert(v); }

// linear: every monomial has degree <= 1 in variables that are free symbols or atoms with a linear definition over linear arguments
static bool var_linear(Var v, int depth = 0);
static bool poly_linear(const Poly& p, int depth = 0) {
  if (depth > 20) return false;
  for (auto& kv : p) { if (kv.first.size() > 1) return false; for (Var v : kv.first) if (!var_linear(v, depth + 1)) return false; }
  return true;
}
static bool var_linear(Var v, int depth) {
  const VarInfo& vi = E().vars[v];
  switch (vi.kind) {
    case V_FREE: case V_UNINIT: case V_UF: return true;          // (an uninterpreted value is just another symbol; its range axiom is linear)
    case V_ABS: case V_MAX: case V_MIN: case V_INT: for (auto& a : vi.args) if (!poly_linear(a, depth + 1)) return false; return true;
    default: return false;                                         // sqrt, quotient, angle, sine, cosine: nonlinear definitions
  }
}
static void pc_add(const z3::expr& f, std::initializer_list<const Poly*> polys) {
  Engine& e = E();
  std::set<Var> vs; for (const Poly* p : polys) vars_of(*p, vs);
  bool lin = true; for (const Poly* p : polys) if (!poly_linear(*p)) lin = false;
  Engine::Cons c{f, std::vector<Var>(vs.begin(), vs.end()), lin};
  int idx = (int)e.pc.size();
  e.pc.push_back(c);
  for (Var v : c.vars) e.pc_idx[v].push_back(idx);
  std::vector<Var> work(c.vars.begin(), c.vars.end());
  while (!work.empty()) { Var v = work.back(); work.pop_back(); if (!e.pc_rel.insert(v).second) continue;
    for (auto& a : e.vars[v].args) for (auto& kv : a) for (Var u : kv.first) work.push_back(u);
    if (e.vars[v].partner >= 0) work.push_back((Var)e.vars[v].partner); }
}
static void finish_atom(Var v) {
  Engine& e = E();
  e.vars[v].const_state = 0; e.vars[v].num_state = 0; e.vars[v].num.reset();      // the arguments are complete only now
  std::set<Var> as; for (auto& a : e.vars[v].args) vars_of(a, as);
  for (Var u : as) e.users[u].push_back(v);
}

static void atom_defs(Var v, std::vector<z3::expr>& out);
static mpq_class PI_Q() { static mpq_class pi(M_PI); return pi; }

// Decide satisfiability of (relevant slice of the path condition) AND q.
// Only conjuncts and atom definitions connected to the variables of q are sent to the solver
// (constraint independence); `full` sends everything (used to obtain a complete model).
static z3::check_result query(const z3::expr* q, const std::set<Var>& qvars, unsigned timeout_ms, bool want_model, bool full = false,
                              std::string* smt_out = nullptr, bool isolated = false) {
  Engine& e = E();
  std::set<Var> vs; std::vector<Var> work(qvars.begin(), qvars.end());
  std::vector<char> inc(e.pc.size(), 0);
  if (full && !isolated) { for (size_t i = 0; i < e.pc.size(); i++) { inc[i] = 1; for (Var v : e.pc[i].vars) work.push_back(v); } }
  while (!work.empty()) {
    Var v = work.back(); work.pop_back();
    if (!vs.insert(v).second) continue;
    for (auto& a : e.vars[v].args) for (auto& kv : a) for (Var u : kv.first) if (!vs.count(u)) work.push_back(u);
    if (e.vars[v].partner >= 0 && !vs.count((Var)e.vars[v].partner)) work.push_back((Var)e.vars[v].partner);
    if (isolated) continue;
    { auto ut = e.users.find(v); if (ut != e.users.end()) for (Var u : ut->second) if (e.pc_rel.count(u) && !vs.count(u)) work.push_back(u); }
    auto it = e.pc_idx.find(v);
    if (it != e.pc_idx.end()) for (int ci : it->second) if (!inc[ci]) { inc[ci] = 1; for (Var u : e.pc[ci].vars) if (!vs.count(u)) work.push_back(u); }
  }
  // Relaxation first: when the slice holds nonlinear conjuncts, the query is tried against the linear part only (fewer assumptions:
  // "unsat" carries over; anything else is re-asked in full).  It keeps bound arguments in linear arithmetic when an earlier fork has
  // left a quadratic condition on the same symbols in the path condition.
  double t0 = now_s();
  z3::check_result r = z3::unknown; bool decided = false;
  if (q && !want_model && !smt_out) {
    bool any_nonlin = false; for (size_t i = 0; i < e.pc.size(); i++) if (inc[i] && !e.pc[i].lin) any_nonlin = true;
    if (any_nonlin) {
      z3::solver s1(e.ctx); { z3::params p(e.ctx); p.set("timeout", std::min(timeout_ms, 3000u)); s1.set(p); }
      std::vector<z3::expr> d1; for (Var v : vs) if (var_linear(v)) atom_defs(v, d1);
      for (auto& d : d1) s1.add(d);
      for (size_t i = 0; i < e.pc.size(); i++) if (inc[i] && e.pc[i].lin) s1.add(e.pc[i].f);
      s1.add(*q);
      z3::check_result r1; try { r1 = s1.check(); } catch (z3::exception&) { r1 = z3::unknown; }
      if (r1 == z3::unsat) { r = z3::unsat; decided = true; if (e.st) e.st->relaxed_unsat++; }
    }
  }
  z3::solver s(e.ctx);
  if (!decided) {
  { z3::params p(e.ctx); p.set("timeout", timeout_ms); s.set(p); }
  std::vector<z3::expr> defs;
  for (Var v : vs) atom_defs(v, defs);
  for (auto& d : defs) s.add(d);
  for (size_t i = 0; i < e.pc.size(); i++) if (inc[i]) s.add(e.pc[i].f);
  if (q) s.add(*q);
  if (smt_out) *smt_out = s.to_smt2();
  try { r = s.check(); } catch (z3::exception& ex) { r = z3::unknown; }
  }
  double dt = now_s() - t0;
  if (dt > 1.0 && getenv("SX_TRACE")) { std::string qs = q ? q->to_string() : std::string("(pc only)"); std::cerr << "[slow query " << dt << " s, " << (r == z3::sat ? "sat" : r == z3::unsat ? "unsat" : "unknown") << ", vars=" << vs.size() << "] " << qs.substr(0, 300) << "\n"; }
  if (e.st) {
    e.st->solver_s += dt;
    if (r == z3::sat) e.st->q_sat++; else if (r == z3::unsat) e.st->q_unsat++; else e.st->q_unknown++;
  }
  if (want_model) { e.model.reset(); if (r == z3::sat) { try { e.model.reset(new z3::model(s.get_model())); } catch (z3::exception&) {} } }
  return r;
}

static Var new_var(VKind k, const std::string& name, const std::string& key, bool is_int = false) {
  Engine& e = E();
  if (e.vars.size() >= 65000) throw Abort{Abort::Budget, "too many symbols"};
  VarInfo vi; vi.kind = k; vi.name = name; vi.is_int = is_int;
  e.vars.push_back(vi);
  // z3 names must be unique and stable
  std::string zn = "v" + std::to_string(e.vars.size() - 1) + "_" + name;
  for (auto& ch : zn) if (!(isalnum((unsigned char)ch) || ch == '_' )) ch = '_';
  e.zvars.push_back(is_int ? e.ctx.int_const(zn.c_str()) : e.ctx.real_const(zn.c_str()));
  Var v = (Var)(e.vars.size() - 1);
  if (!key.empty()) e.var_by_key[key] = v;
  return v;
}
static int find_var(const std::string& key) {
  auto it = E().var_by_key.find(key);
  return it == E().var_by_key.end() ? -1 : (int)it->second;
}

// ---------------------------------------------------------------------------------------
// term handles
// ---------------------------------------------------------------------------------------
static uint32_t intern_const(const mpq_class& c) {
  Engine& e = E();
  if (c == 0) return 0;
  std::string k = c.get_str(62);
  auto it = e.const_by_key.find(k);
  if (it != e.const_by_key.end()) return it->second;
  e.cpolys.push_back(p_const(c));
  uint32_t id = (uint32_t)e.cpolys.size() - 1;
  e.const_by_key.emplace(k, id);
  return id;
}
static mpq_class q_of_f64(double d) {
  if (!std::isfinite(d)) throw Abort{Abort::Fault, "non-finite floating-point literal"};
  return mpq_class(d);
}
uint32_t mk_i64(long long x) { return intern_const(mpq_class((long)x)); }
uint32_t mk_u64(unsigned long long x) { return intern_const(mpq_class((unsigned long)x)); }

static SymReal mk(Poly&& p) {
  Engine& e = E();
  SymReal r;
  mpq_class c;
  if (p_is_rational(p, &c)) { r.tag = TAG_CONST; r.id = intern_const(c); return r; }
  if (e.terms.size() > 60000000) throw Abort{Abort::Budget, "term arena exhausted"};
  e.terms.push_back(std::move(p));
  r.tag = TAG_TERM | (e.gen & 0xFFFF); r.id = (uint32_t)e.terms.size() - 1;
  return r;
}
static SymReal mkc(const Poly& p) { Poly q = p; return mk(std::move(q)); }

static SymReal fresh_uninit(const char* what) {
  Engine& e = E();
  std::string name = std::string("uninit") + std::to_string(e.uninit_counter++);
  int v = find_var("U:" + name);
  if (v < 0) v = new_var(V_UNINIT, name, "U:" + name);
  if (e.st) e.st->uninit_reads++;
  e.vars[v].active_gen = e.gen;
  (void)what;
  return mk(p_var((Var)v));
}

// term of a handle; materialises uninitialised storage as a fresh unconstrained symbol
static const Poly& P(const SymReal& x) {
  Engine& e = E();
  if (x.tag == TAG_CONST) {
    if (x.id < e.cpolys.size()) return e.cpolys[x.id];
  } else if (x.tag == 0 && x.id == 0) {
    return e.zero;
  } else if ((x.tag & TAG_MASK) == TAG_TERM) {
    if ((x.tag & 0xFFFF) == (e.gen & 0xFFFF) && x.id < e.terms.size()) return e.terms[x.id];
    throw Abort{Abort::Unsupported, "symbolic value survived from an earlier path (static storage)"};
  }
  // poison pattern or arbitrary garbage: uninitialised storage
  SymReal u = fresh_uninit("read");
  return e.terms[u.id];
}

SymReal from_f64(double d) {
  Engine& e = E();
  if (!e.magic.empty()) {
    auto it = e.magic.find(d);
    if (it != e.magic.end()) return mkc(it->second);     // a reserved literal read back from text
  }
  SymReal r; r.tag = TAG_CONST; r.id = intern_const(q_of_f64(d)); return r;
}

// ---------------------------------------------------------------------------------------
// atoms
// ---------------------------------------------------------------------------------------
static void atom_defs(Var v, std::vector<z3::expr>& out) {
  Engine& e = E();
  VarInfo& vi = e.vars[v];
  z3::expr z = e.zvars[v];
  switch (vi.kind) {
    case V_SQRT:  out.push_back(z >= 0); out.push_back(z * z == z_of(vi.args[0])); break;
    case V_ABS:   out.push_back(z >= 0); out.push_back(z == z_of(vi.args[0]) || z == -z_of(vi.args[0])); break;
    case V_QUOT:  out.push_back(z * z_of(vi.args[1]) == z_of(vi.args[0])); out.push_back(z_of(vi.args[1]) != 0); break;
    case V_MAX:   { z3::expr a = z_of(vi.args[0]), b = z_of(vi.args[1]); out.push_back(z >= a && z >= b && (z == a || z == b)); } break;
    case V_MIN:   { z3::expr a = z_of(vi.args[0]), b = z_of(vi.args[1]); out.push_back(z <= a && z <= b && (z == a || z == b)); } break;
    case V_SIN: { z3::expr cs = e.zvars[vi.partner]; out.push_back(z * z + cs * cs == 1); } break;
    case V_COS: break;     // stated once, with the sine
    case V_ANGLE: {
      z3::expr th = z, pi = e.ctx.real_val(PI_Q().get_str().c_str());
      z3::expr zy = z_of(vi.args[0]), zx = z_of(vi.args[1]);
      out.push_back(th > -pi && th <= pi);
      out.push_back(z3::implies(zy > 0, th > 0 && th < pi));
      out.push_back(z3::implies(zy < 0, th < 0));
      out.push_back(z3::implies(zy == 0 && zx > 0, th == 0));
      out.push_back(z3::implies(zy == 0 && zx < 0, th == pi));
      out.push_back(z3::implies(zx > 0, th > -pi / 2 && th < pi / 2));
      out.push_back(z3::implies(zx < 0, th > pi / 2 || th < -pi / 2));
      out.push_back(z3::implies(zx == 0 && zy > 0, th == pi / 2));
      out.push_back(z3::implies(zx == 0 && zy < 0, th == -pi / 2));
    } break;
    case V_INT:   // n <= x < n+1  (floor)
      out.push_back(z3::to_real(z) <= z_of(vi.args[0]) && z_of(vi.args[0]) < z3::to_real(z) + 1); break;
    case V_UF:    // ranges of the inverse trigonometric functions (a slightly wider rational enclosure of pi is used)
      if (vi.uf == "acos") { out.push_back(z >= 0 && z <= e.ctx.real_val("3141592653589794/1000000000000000")); }
      else if (vi.uf == "asin") { out.push_back(z >= e.ctx.real_val("-1570796326794897/1000000000000000") && z <= e.ctx.real_val("1570796326794897/1000000000000000")); }
      else if (vi.uf == "exp") { out.push_back(z > 0); }
      break;
    default: break;
  }
}

// split p = c * p0 with p0 monic in the map order (last monomial has coefficient 1)
static void p_monic(const Poly& p, mpq_class& c, Poly& p0) {
  c = p_lead(p); p0.clear();
  for (auto& kv : p) p0[kv.first] = kv.second / c;
}

static bool is_square(const mpz_class& n, mpz_class& r) { if (n < 0) return false; r = ::sqrt(n); return r * r == n; }

static SymReal sqrt_const(const mpq_class& c) {
  if (c < 0) throw Abort{Abort::Fault, "sqrt of a negative constant " + c.get_str()};
  if (c == 0) return mk(Poly());
  mpz_class n = c.get_num(), d = c.get_den(), rn, rd;
  if (is_square(n, rn) && is_square(d, rd)) return mk(p_const(mpq_class(rn, rd)));
  // sqrt(n/d) = sqrt(n*d)/d ; extract square factors by trial division
  mpz_class m = n * d, s = 1;
  Poly res = p_const(mpq_class(1, 1));
  std::vector<unsigned long> primes_out;
  mpz_class rest = m;
  for (unsigned long p = 2; p < 200000 && rest > 1; p += (p == 2 ? 1 : 2)) {
    if (mpz_class(p) * p > rest) break;
    int k = 0;
    while (mpz_divisible_ui_p(rest.get_mpz_t(), p)) { mpz_divexact_ui(rest.get_mpz_t(), rest.get_mpz_t(), p); k++; }
    for (int i = 0; i < k / 2; i++) s *= p;
    if (k % 2) primes_out.push_back(p);
  }
  mpz_class rr;
  Poly acc = p_const(mpq_class(s, d));
  if (rest > 1) {
    if (is_square(rest, rr)) acc = p_scale(acc, mpq_class(rr));
    else {
      std::string key = "SQRTC:" + rest.get_str();
      int v = find_var(key);
      if (v < 0) { v = new_var(V_SQRT, "sqrt(" + rest.get_str() + ")", key);
        VarInfo& vi = E().vars[v]; vi.args.push_back(p_const(mpq_class(rest))); vi.has_sq = true; vi.sq = p_const(mpq_class(rest)); finish_atom((Var)v); }
      acc = p_mul(acc, p_var((Var)v));
    }
  }
  for (unsigned long p : primes_out) {
    std::string key = "SQRTC:" + std::to_string(p);
    int v = find_var(key);
    if (v < 0) { v = new_var(V_SQRT, "sqrt(" + std::to_string(p) + ")", key);
      VarInfo& vi = E().vars[v]; vi.args.push_back(p_const(mpq_class(p))); vi.has_sq = true; vi.sq = p_const(mpq_class(p)); finish_atom((Var)v); }
    acc = p_mul(acc, p_var((Var)v));
  }
  return mk(std::move(acc));
}


// ---- numeric evaluation of constants that contain radicals (512-bit floats) --------------------
static bool eval_const(const Poly& p, mpf_class& out, int depth = 0);
// 512-bit elementary functions for constants that contain angle / sine / cosine atoms of constant arguments
static mpf_class mp_atan_small(const mpf_class& t) {        // |t| <= 2^-8: alternating series
  mpf_class sum(0, 640), pw(t, 640), t2(t * t, 640), lim(1, 640); lim >>= 560;
  for (unsigned long n = 0; n < 4000; n++) { mpf_class term(pw / (2 * n + 1), 640); if (n & 1) sum -= term; else sum += term; pw *= t2; if (abs(pw) < lim) break; }
  return sum;
}
static mpf_class mp_atan(mpf_class t) {
  bool neg = t < 0; if (neg) t = -t;
  mpf_class one(1, 640), small(1, 640); small >>= 8;
  int k = 0; mpf_class u(t, 640);
  bool inv = u > 1; if (inv) u = one / u;
  while (u > small) { u = u / (one + sqrt(one + u * u)); k++; }
  mpf_class r = mp_atan_small(u); r <<= k;
  if (inv) { static mpf_class half_pi(0, 640); static bool have = false; if (!have) { mpf_class a(1, 640), b(1, 640); a /= 5; b /= 239; half_pi = (mp_atan_small(a) * 16 - mp_atan_small(b) * 4) / 2; have = true; } r = half_pi - r; }
  return neg ? mpf_class(-r) : r;
}
static const mpf_class& mp_pi() { static mpf_class pi(0, 640); static bool have = false; if (!have) { mpf_class a(1, 640), b(1, 640); a /= 5; b /= 239; pi = mp_atan_small(a) * 16 - mp_atan_small(b) * 4; have = true; } return pi; }
static bool mp_atan2(const mpf_class& y, const mpf_class& x, mpf_class& out) {
  if (x == 0 && y == 0) return false;
  if (x == 0) { out = mp_pi() / 2; if (y < 0) out = -out; return true; }
  mpf_class q(y / x, 640); mpf_class a = mp_atan(q);
  if (x > 0) out = a; else if (y >= 0) out = a + mp_pi(); else out = a - mp_pi();
  return true;
}
static void mp_sincos(mpf_class a_in, mpf_class& s, mpf_class& c) {
  mpf_class a(a_in, 640);
  mpf_class two_pi(mp_pi() * 2, 640); mpf_class k(0, 640); k = floor(a / two_pi + mpf_class(0.5, 640)); { mpf_class a2(a, 640); a2 -= k * two_pi; a = a2; }      // |a| <= pi
  mpf_class sa(0, 640), ca(1, 640), term(1, 640), lim(1, 640); lim >>= 560;
  for (unsigned long n = 1; n < 2000; n++) { term = term * a / n; switch (n & 3) { case 1: sa += term; break; case 2: ca -= term; break; case 3: sa -= term; break; default: ca += term; } if (n > 8 && abs(term) < lim) break; }
  s = sa; c = ca;
}
static bool eval_var_raw(Var v, mpf_class& out, int depth);
static bool eval_var(Var v, mpf_class& out, int depth) {       // memoised: nested constant atoms form a DAG, not a tree
  VarInfo& vi = E().vars[v];
  if (vi.num_state == 1) { out = *vi.num; return true; }
  if (vi.num_state == 2) return false;
  mpf_class val(0, 512); bool ok = eval_var_raw(v, val, depth);
  if (depth <= 400) { VarInfo& w = E().vars[v]; w.num_state = ok ? 1 : 2; if (ok) w.num.reset(new mpf_class(val, 512)); }
  if (ok) out = val; return ok;
}
static bool eval_var_raw(Var v, mpf_class& out, int depth) {
  const VarInfo& vi = E().vars[v];
  if (depth > 400) return false;
  mpf_class a(0, 512), b(0, 512);
  switch (vi.kind) {
    case V_SQRT: if (!eval_const(vi.args[0], a, depth + 1) || a < 0) return false; out = sqrt(a); return true;
    case V_ABS:  if (!eval_const(vi.args[0], a, depth + 1)) return false; out = abs(a); return true;
    case V_QUOT: if (!eval_const(vi.args[0], a, depth + 1) || !eval_const(vi.args[1], b, depth + 1) || b == 0) return false; out = a / b; return true;
    case V_MAX:  if (!eval_const(vi.args[0], a, depth + 1) || !eval_const(vi.args[1], b, depth + 1)) return false; out = a > b ? a : b; return true;
    case V_MIN:  if (!eval_const(vi.args[0], a, depth + 1) || !eval_const(vi.args[1], b, depth + 1)) return false; out = a < b ? a : b; return true;
    case V_ANGLE: if (!eval_const(vi.args[0], a, depth + 1) || !eval_const(vi.args[1], b, depth + 1)) return false; return mp_atan2(a, b, out);
    case V_SIN:  if (!eval_const(vi.args[0], a, depth + 1)) return false; { mpf_class s_(0, 640), c_(0, 640); mp_sincos(a, s_, c_); out = s_; } return true;
    case V_COS:  if (!eval_const(vi.args[0], a, depth + 1)) return false; { mpf_class s_(0, 640), c_(0, 640); mp_sincos(a, s_, c_); out = c_; } return true;
    case V_UF:
      if ((vi.uf == "acos" || vi.uf == "asin") && vi.args.size() == 1) {
        if (!eval_const(vi.args[0], a, depth + 1) || a > 1 || a < -1) return false;
        mpf_class t(a, 640), one(1, 640); mpf_class c2(sqrt(one - t * t), 640);
        if (c2 == 0 && t == 0) return false;
        return vi.uf == "acos" ? mp_atan2(c2, t, out) : mp_atan2(t, c2, out);
      }
      return false;
    default: return false;
  }
}
static bool eval_const(const Poly& p, mpf_class& out, int depth) {
  mpf_class s(0, 512);
  for (auto& kv : p) {
    mpf_class t(kv.second, 512);
    for (Var v : kv.first) { mpf_class f(0, 512); if (!eval_var(v, f, depth)) return false; t *= f; }
    s += t;
  }
  out = s; return true;
}
// sign of a constant polynomial: numeric when clearly non-zero, otherwise decided by a throw-away solver
static bool const_sign(const Poly& p, int& sign) {
  mpf_class v(0, 512), scale(0, 512);
  if (!eval_const(p, v)) return false;
  for (auto& kv : p) { mpf_class t(kv.second, 512); mpf_class f(0, 512); bool ok = true; for (Var x : kv.first) { if (!eval_var(x, f, 0)) { ok = false; break; } t *= f; } if (ok) scale += abs(t); }
  if (scale == 0) { sign = 0; return true; }
  mpf_class rel = abs(v) / scale;
  mpf_class eps(1, 512); eps >>= 300;          // 2^-300: far above the 512-bit evaluation error, far below any genuine gap
  if (rel > eps) { sign = v > 0 ? 1 : -1; return true; }
  // numerically zero: confirm exactly with a query holding only the atoms involved (no path condition)
  std::set<Var> qv; vars_of(p, qv);
  z3::expr ne = z_of(p) != 0;
  z3::check_result r = query(&ne, qv, 20000, false, false, nullptr, true);
  if (r == z3::unsat) { sign = 0; return true; }
  if (r == z3::sat) { sign = v > 0 ? 1 : v < 0 ? -1 : 0; if (sign == 0) return false; return true; }
  return false;
}


// syntactic sign: +1 if every monomial is a positive multiple of a product of atoms that are non-negative by
// construction (sqrt, abs) or of squares; -1 if every monomial is a negative such multiple; 0 unknown
static int sign_syntactic(const Poly& p) {
  if (p.empty()) return 0;
  int sg = 0;
  for (auto& kv : p) {
    const Mono& m = kv.first;
    for (size_t i = 0; i < m.size(); i++) {
      VKind k = E().vars[m[i]].kind;
      if (i + 1 < m.size() && m[i + 1] == m[i]) { i++; continue; }
      if (!(k == V_SQRT || k == V_ABS)) return 0;
    }
    int s1 = kv.second > 0 ? 1 : -1;
    if (sg == 0) sg = s1; else if (sg != s1) return 0;
  }
  return sg;
}


// a*Y - b*W with a,b > 0 and Y, W products of atoms that are non-negative by construction has the sign of
// a^2*Y^2 - b^2*W^2, in which the squares of sqrt/abs atoms are rewritten to their radicands: one sqrt level less
static bool nonneg_mono(const Mono& m) {
  if (m.empty()) return true;
  for (size_t i = 0; i < m.size(); i++) { VKind k = E().vars[m[i]].kind; if (i + 1 < m.size() && m[i + 1] == m[i]) { i++; continue; } if (!(k == V_SQRT || k == V_ABS)) return false; }
  return true;
}
static bool square_two_terms(const Poly& p, Poly& out) {
  if (p.size() != 2) return false;
  auto it = p.begin(); const Mono& m1 = it->first; mpq_class c1 = it->second; ++it; const Mono& m2 = it->first; mpq_class c2 = it->second;
  if ((c1 > 0) == (c2 > 0)) return false;
  if (!nonneg_mono(m1) || !nonneg_mono(m2)) return false;
  bool has_atom = false; for (Var v : m1) if (E().vars[v].has_sq) has_atom = true; for (Var v : m2) if (E().vars[v].has_sq) has_atom = true;
  if (!has_atom) return false;
  Poly a, b; a[m1] = c1; b[m2] = c2;      // p = a + b with opposite signs:  sign(p) = sign(|pos|^2 - |neg|^2)
  Poly a2 = p_mul(a, a), b2 = p_mul(b, b);
  out = (c1 > 0) ? p_sub(a2, b2) : p_sub(b2, a2);
  return true;
}

enum Rel : int { R_LT, R_LE, R_EQ };
static z3::expr z_rel(const Poly& p, Rel r) { z3::expr e = z_of(p); return r == R_LT ? e < 0 : r == R_LE ? e <= 0 : e == 0; }
static bool feasible(const z3::expr& c, std::initializer_list<const Poly*> polys, bool* unknown = nullptr, unsigned timeout_ms = 0) {
  Engine& e = E();
  std::set<Var> qv; for (const Poly* p : polys) vars_of(*p, qv);
  z3::check_result r = query(&c, qv, timeout_ms ? timeout_ms : e.pol.solver_timeout_ms, false);
  if (r == z3::unknown) { if (unknown) *unknown = true; return true; }
  return r == z3::sat;
}

static void record_violation(const std::string& label, const std::string& kind, const std::string& detail,
                             const Poly* term, bool with_model);

// divisor != 0: if zero is feasible under the path condition it is reported (policy) and assumed away
static void guard_nonzero(const z3::expr& zq, const Poly& q0) {
  Engine& e = E();
  { int sg; if (p_is_const(q0) && const_sign(q0, sg)) { if (sg == 0) { if (getenv("SX_TRACE")) { void* bt[40]; int n = backtrace(bt, 40); backtrace_symbols_fd(bt, n, 2); } throw Abort{Abort::Fault, "division by zero (constant divisor)"}; } return; } }
  std::set<Var> qv; vars_of(q0, qv);
  z3::expr c = (zq == 0);
  z3::check_result r = query(&c, qv, e.pol.aux_timeout_ms, e.pol.div0_is_violation);
  if (r == z3::unsat) return;
  if (r == z3::sat && e.pol.div0_is_violation) record_violation("division-by-zero", "fault", "divisor can be zero: " + p_show(q0), &q0, true);
  if (e.st) { if (r == z3::sat) e.st->div0_assumed++; else e.st->aux_unknown++; }
  pc_add(zq != 0, {&q0});
}

static SymReal abs_sym(const Poly& p);
static SymReal sqrt_sym(const Poly& p) {
  Engine& e = E();
  mpq_class c; if (p_is_rational(p, &c)) return sqrt_const(c);
  mpq_class lc; Poly p0; p_monic(p, lc, p0);
  // is p a constant multiple of a square of something we know?  (y^2 rewriting makes m0^2*q -> q*R)
  if (lc < 0) { lc = -lc; p0 = p_neg(p0); }
  // feasibility of a negative radicand
  // perfect square of a monomial: sqrt(m^2) = |m|
  if (p0.size() == 1 && !p0.begin()->first.empty()) {
    const Mono& m = p0.begin()->first; bool even = m.size() % 2 == 0; Mono half;
    for (size_t i = 0; even && i < m.size(); i += 2) { if (m[i] != m[i + 1]) even = false; else half.push_back(m[i]); }
    if (even) { Poly hp; hp[half] = 1; SymReal a = abs_sym(hp); SymReal sc = sqrt_const(lc); return mk(p_mul(P(sc), P(a))); }
  }
  int csg;
  if (p_is_const(p0) && const_sign(p0, csg)) {
    if (csg < 0) throw Abort{Abort::Fault, "sqrt of a negative constant"};
  } else if (e.pol.sqrtneg_is_violation) {
    std::set<Var> qv; vars_of(p0, qv);
    z3::expr c = z_of(p0) < 0;
    z3::check_result r = query(&c, qv, e.pol.aux_timeout_ms, true);
    if (r == z3::sat) { record_violation("sqrt-of-negative", "fault", "radicand can be negative: " + p_show(p0), &p0, true); if (e.st) e.st->sqrtneg_assumed++; }
    else if (r == z3::unknown && e.st) e.st->aux_unknown++;
  }
  // the definition y >= 0, y*y = radicand (sent with every query that involves y) implies radicand >= 0:
  // values with a negative radicand are outside the explored domain (stated assumption)
  std::string key = "SQRT:" + p_key(p0);
  int v = find_var(key);
  if (v < 0) { v = new_var(V_SQRT, "sqrt#" + std::to_string(e.vars.size()), key);
    VarInfo& vi = e.vars[v]; vi.args.push_back(p0); vi.has_sq = true; vi.sq = p0; finish_atom((Var)v); }
  SymReal sc = sqrt_const(lc);
  return mk(p_mul(P(sc), p_var((Var)v)));
}

static SymReal abs_sym(const Poly& p) {
  Engine& e = E();
  mpq_class c; if (p_is_rational(p, &c)) return mk(p_const(c < 0 ? mpq_class(-c) : c));
  if (p_is_const(p)) {   // radical constant: decide sign
    int sg; bool neg;
    if (const_sign(p, sg)) neg = sg < 0; else { neg = !feasible(z_of(p) >= 0, {&p}); }
    return neg ? mk(p_neg(p)) : mkc(p);
  }
  // single monomial of atoms that are non-negative by construction (sqrt, abs) keeps its sign
  mpq_class lc; Poly p0; p_monic(p, lc, p0);
  if (p0.size() == 1) {
    bool nonneg = true;
    const Mono& m = p0.begin()->first;
    for (size_t i = 0; i < m.size(); i++) {
      VKind k = e.vars[m[i]].kind;
      bool even = false;   // paired occurrence
      if (i + 1 < m.size() && m[i + 1] == m[i]) { even = true; i++; }
      if (!even && !(k == V_SQRT || k == V_ABS)) { nonneg = false; break; }
    }
    if (nonneg) return mk(p_scale(p0, lc < 0 ? mpq_class(-lc) : lc));
  }
  std::string key = "ABS:" + p_key(p0);
  int v = find_var(key);
  if (v < 0) { v = new_var(V_ABS, "abs#" + std::to_string(e.vars.size()), key);
    VarInfo& vi = e.vars[v]; vi.args.push_back(p0); vi.has_sq = true; vi.sq = p_mul(p0, p0); finish_atom((Var)v); }
  return mk(p_scale(p_var((Var)v), lc < 0 ? mpq_class(-lc) : lc));
}

static SymReal quot_sym(const Poly& num, const Poly& den) {
  Engine& e = E();
  mpq_class c;
  if (p_is_rational(den, &c)) {
    if (c == 0) {
      if (getenv("SX_TRACE")) { void* bt[40]; int n = backtrace(bt, 40); backtrace_symbols_fd(bt, n, 2); }
      throw Abort{Abort::Fault, "division by zero (constant divisor)"};
    }
    return mk(p_scale(num, 1 / c));
  }
  if (num.empty()) {
    // 0/q : still a division; q==0 feasibility is checked below for symbolic q
  }
  mpq_class lc; Poly q0; p_monic(den, lc, q0);
  Poly p1 = p_scale(num, 1 / lc);
  // single-monomial divisor: rationalise sqrt/abs atoms, cancel plain variables
  if (q0.size() == 1) {
    Mono m = q0.begin()->first;
    for (size_t i = 0; i < m.size(); i++) {
      Var v = m[i];
      const VarInfo& vi = e.vars[v];
      if (vi.has_sq && (vi.kind == V_SQRT || vi.kind == V_ABS)) {
        // 1/v = v / sq
        Mono rest = m; rest.erase(rest.begin() + i);
        Poly newden = vi.sq; if (!rest.empty()) { Poly r; r[rest] = 1; newden = p_mul(newden, r); }
        // divisor zero check on v itself
        guard_nonzero(e.zvars[v], q0);
        return quot_sym(p_mul(p1, p_var(v)), newden);
      }
    }
    // exact cancellation of a monomial divisor
    bool divisible = true;
    for (auto& kv : p1) { if (!std::includes(kv.first.begin(), kv.first.end(), m.begin(), m.end())) { divisible = false; break; } }
    if (divisible && !p1.empty()) {
      guard_nonzero(z_of(q0), q0);
      Poly r;
      for (auto& kv : p1) { Mono mm; std::set_difference(kv.first.begin(), kv.first.end(), m.begin(), m.end(), std::back_inserter(mm)); p_addto(r, mm, kv.second); }
      return mk(std::move(r));
    }
  }
  // proportional numerator
  if (!p1.empty() && p1.size() == q0.size()) {
    mpq_class k = p_lead(p1);
    if (p_sub(p1, p_scale(q0, k)).empty()) {
      guard_nonzero(z_of(q0), q0);
      return mk(p_const(k));
    }
  }
  guard_nonzero(z_of(q0), q0);
  if (p1.empty()) return mk(Poly());
  // general quotient atom, numerator made monic too so that c*p/q shares the atom of p/q
  mpq_class nc; Poly n0; p_monic(p1, nc, n0);
  std::string key = "QUOT:" + p_key(n0) + "/" + p_key(q0);
  int v = find_var(key);
  if (v < 0) { v = new_var(V_QUOT, "quot#" + std::to_string(e.vars.size()), key);
    VarInfo& vi = e.vars[v]; vi.args.push_back(n0); vi.args.push_back(q0); finish_atom((Var)v); }
  return mk(p_scale(p_var((Var)v), nc));
}

static SymReal minmax_sym(const Poly& a, const Poly& b, bool is_max) {
  Engine& e = E();
  Poly d = p_sub(a, b);
  if (d.empty()) return mkc(a);
  if (p_is_const(d)) {
    mpq_class c; bool a_ge_b;
    int sg;
    if (p_is_rational(d, &c)) a_ge_b = c >= 0; else if (const_sign(d, sg)) a_ge_b = sg >= 0; else { a_ge_b = !feasible(z_of(d) < 0, {&d}); }
    return mkc((a_ge_b == is_max) ? a : b);
  }
  bool u1 = false, u2 = false;
  bool can_lt = feasible(z_of(d) < 0, {&d}, &u1), can_gt = feasible(z_of(d) > 0, {&d}, &u2);
  if (u1 || u2) throw Abort{Abort::Unknown, "solver could not order min/max operands"};
  if (!can_lt) return mkc(is_max ? a : b);
  if (!can_gt) return mkc(is_max ? b : a);
  std::string key = std::string(is_max ? "MAX:" : "MIN:") + p_key(a) + "|" + p_key(b);
  int v = find_var(key);
  if (v < 0) { v = new_var(is_max ? V_MAX : V_MIN, std::string(is_max ? "max#" : "min#") + std::to_string(e.vars.size()), key);
    VarInfo& vi = e.vars[v]; vi.args.push_back(a); vi.args.push_back(b); finish_atom((Var)v); }
  return mk(p_var((Var)v));
}

static SymReal uf_sym(const std::string& f, const std::vector<Poly>& args) {
  Engine& e = E();
  std::string key = "UF:" + f;
  for (auto& a : args) key += "(" + p_key(a) + ")";
  int v = find_var(key);
  if (v < 0) { v = new_var(V_UF, f + "#" + std::to_string(e.vars.size()), key);
    VarInfo& vi = e.vars[v]; vi.uf = f; vi.args = args; finish_atom((Var)v); }
  return mk(p_var((Var)v));
}

// --- angles -------------------------------------------------------------------------------
// sin/cos of a constant that is a multiple of pi/4 (pi := the M_PI literal)
static bool trig_special(const mpq_class& c, Poly& s, Poly& co) {
  mpq_class k = c / (PI_Q() / 4);
  if (k.get_den() != 1) return false;
  long n = mpz_class(k.get_num() % 8).get_si(); if (n < 0) n += 8;
  static const int S[8] = {0, 1, 2, 1, 0, -1, -2, -1};   // in units of 1/2 ... 1 -> sqrt2/2, 2 -> 1
  auto val = [&](int u) -> Poly {
    if (u == 0) return Poly();
    if (u == 2 || u == -2) return p_const(u / 2);
    SymReal r2 = sqrt_const(2);
    return p_scale(P(r2), mpq_class(u, 2));
  };
  s = val(S[n]); co = val(S[(n + 2) % 8]);
  return true;
}

struct SC { Poly s, c; };
static SC sincos_poly(const Poly& p);

static SC sincos_var_angle(Var v) {          // v is an ANGLE atom: args = {y, x, h}
  Engine& e = E();
  const VarInfo& vi = e.vars[v];
  SC r;
  r.s = P(quot_sym(vi.args[0], vi.args[2]));
  r.c = P(quot_sym(vi.args[1], vi.args[2]));
  return r;
}

static SC sincos_generic(const Poly& p) {
  Engine& e = E();
  std::string ks = "SIN:" + p_key(p), kc = "COS:" + p_key(p);
  int vs = find_var(ks), vc = find_var(kc);
  if (vs < 0) {
    vs = new_var(V_SIN, "sin#" + std::to_string(e.vars.size()), ks);
    vc = new_var(V_COS, "cos#" + std::to_string(e.vars.size()), kc);
    e.vars[vs].args.push_back(p); e.vars[vc].args.push_back(p);
    e.vars[vs].partner = vc; e.vars[vc].partner = vs;
    // canonical rewriting: sin^2 -> 1 - cos^2
    e.vars[vs].has_sq = true; Poly one = p_const(1); Poly c2; c2[Mono{(Var)vc, (Var)vc}] = 1; e.vars[vs].sq = p_sub(one, c2);
    finish_atom((Var)vs); finish_atom((Var)vc);
  }
  SC r; r.s = p_var((Var)vs); r.c = p_var((Var)vc); return r;
}

static SC sincos_poly(const Poly& p) {
  Engine& e = E();
  SC r;
  if (p.empty()) { r.s = Poly(); r.c = p_const(1); return r; }
  mpq_class c;
  if (p_is_rational(p, &c)) {
    if (trig_special(c, r.s, r.c)) return r;
    return sincos_generic(p);
  }
  // p = (+-)theta + rest ?  peel one unit-coefficient angle atom and use the addition theorem
  for (auto& kv : p) {
    if (kv.first.size() == 1 && e.vars[kv.first[0]].kind == V_ANGLE && (kv.second == 1 || kv.second == -1)) {
      Var v = kv.first[0];
      Poly rest = p; rest.erase(kv.first);
      SC a = sincos_var_angle(v);
      if (kv.second == -1) a.s = p_neg(a.s);
      SC b = sincos_poly(rest);
      r.s = p_add(p_mul(a.s, b.c), p_mul(a.c, b.s));
      r.c = p_sub(p_mul(a.c, b.c), p_mul(a.s, b.s));
      return r;
    }
  }
  // constant part that is a special multiple of pi: peel it
  auto it = p.find(Mono());
  if (it != p.end()) {
    Poly s0, c0;
    if (trig_special(it->second, s0, c0)) {
      Poly rest = p; rest.erase(Mono());
      SC b = sincos_poly(rest);
      r.s = p_add(p_mul(s0, b.c), p_mul(c0, b.s));
      r.c = p_sub(p_mul(c0, b.c), p_mul(s0, b.s));
      return r;
    }
  }
  // odd/even symmetry for canonical keys: make the leading coefficient positive
  if (p_lead(p) < 0) { SC b = sincos_generic(p_neg(p)); r.s = p_neg(b.s); r.c = b.c; return r; }
  return sincos_generic(p);
}

enum Rel : int;
static bool decide(const Poly& p, Rel rel);
static SymReal atan2_sym(const Poly& y, const Poly& x) {
  Engine& e = E();
  mpq_class cy, cx;
  bool ry = p_is_rational(y, &cy), rx = p_is_rational(x, &cx);
  if (ry && rx) {
    if (cy == 0 && cx == 0) return mk(Poly());
    mpq_class pi = PI_Q();
    if (cy == 0) return mk(p_const(cx > 0 ? mpq_class(0) : pi));
    if (cx == 0) return mk(p_const(cy > 0 ? mpq_class(pi / 2) : mpq_class(-pi / 2)));
    if (cy == cx)  return mk(p_const(cx > 0 ? mpq_class(pi / 4) : mpq_class(-3 * pi / 4)));
    if (cy == -cx) return mk(p_const(cx > 0 ? mpq_class(-pi / 4) : mpq_class(3 * pi / 4)));
  }
  // angle atom theta in (-pi, pi] with sin(theta)*h = y, cos(theta)*h = x, h = sqrt(x^2+y^2) > 0
  // canonical key: (y,x) and (-y,-x) share one atom, the opposite direction is theta -+ pi
  {
    const Poly& lead = y.empty() ? x : y;
    if (!lead.empty() && p_lead(lead) < 0 && !(ry && rx)) {
      SymReal t0 = atan2_sym(p_neg(y), p_neg(x));
      Poly pt0 = P(t0);
      bool positive = decide(p_neg(pt0), R_LT);          // theta0 > 0 ?
      mpq_class pi = PI_Q();
      return mk(p_add(pt0, p_const(positive ? mpq_class(-pi) : pi)));
    }
  }
  Poly h2 = p_add(p_mul(x, x), p_mul(y, y));
  bool unk = false;
  if (feasible(z_of(h2) == 0, {&h2}, &unk, E().pol.aux_timeout_ms)) {
    // atan2(0,0) = 0 in libm; the symbolic angle is only defined away from the origin
    pc_add(z_of(h2) != 0, {&h2});
    if (e.st) e.st->notes.push_back({"assumed", "atan2 arguments not both zero"});
  }
  SymReal h = sqrt_sym(h2);
  std::string key = "ANGLE:" + p_key(y) + "|" + p_key(x);
  int v = find_var(key);
  if (v < 0) { v = new_var(V_ANGLE, "ang#" + std::to_string(e.vars.size()), key);
    VarInfo& vi = e.vars[v]; vi.args.push_back(y); vi.args.push_back(x); vi.args.push_back(P(h)); finish_atom((Var)v); }
  return mk(p_var((Var)v));
}

// ---------------------------------------------------------------------------------------
// decisions
// ---------------------------------------------------------------------------------------
static int fork_point(int n_options, const std::vector<int>* feasible_opts) {
  Engine& e = E();
  // feasible_opts: subset of options that are feasible (size>=2 here) or null = all
  int take;
  if (e.dpos < e.prefix.size()) take = e.prefix[e.dpos];
  else {
    std::vector<int> opts;
    if (feasible_opts) opts = *feasible_opts; else for (int i = 0; i < n_options; i++) opts.push_back(i);
    take = opts[0];
    for (size_t k = 1; k < opts.size(); k++) {
      std::vector<int> alt(e.decisions); alt.push_back(opts[k]);
      e.worklist.push_back(alt);
    }
    if (e.st) e.st->forks++;
  }
  e.decisions.push_back(take);
  e.dpos++;
  return take;
}


// ---- interval pre-filter ---------------------------------------------------------------------------------
// Enclosure of a polynomial over the boxes assumed for its symbols (256-bit floats, every operation widened outwards).  It decides
// branch conditions that follow from the assumed ranges alone (outlier tests, tolerance tests on tiny symbolic errors) without a
// solver call; it uses fewer assumptions than the path condition, so "always true / always false" carries over.
struct Ival { mpf_class lo, hi; bool ok; };
static void widen(Ival& x) { mpf_class eps(1, 256); eps >>= 200; mpf_class m = abs(x.lo) > abs(x.hi) ? abs(x.lo) : abs(x.hi); mpf_class d = m * eps + eps; x.lo -= d; x.hi += d; }
static Ival iv_const(const mpq_class& q) { Ival r{mpf_class(q, 256), mpf_class(q, 256), true}; widen(r); return r; }
static Ival iv_mul(const Ival& a, const Ival& b) { if (!a.ok || !b.ok) return Ival{mpf_class(0, 256), mpf_class(0, 256), false};
  mpf_class c[4] = {a.lo * b.lo, a.lo * b.hi, a.hi * b.lo, a.hi * b.hi}; Ival r{c[0], c[0], true}; for (int i = 1; i < 4; i++) { if (c[i] < r.lo) r.lo = c[i]; if (c[i] > r.hi) r.hi = c[i]; } widen(r); return r; }
static Ival iv_poly(const Poly& p, int depth);
static Ival iv_var(Var v, int depth) {
  Engine& e = E(); const VarInfo& vi = e.vars[v]; Ival bad{mpf_class(0, 256), mpf_class(0, 256), false};
  if (depth > 12) return bad;
  auto bx = e.box.find(v);
  Ival r = bad;
  switch (vi.kind) {
    case V_FREE: case V_UNINIT: break;
    case V_UF: if (vi.uf == "acos") { r = Ival{mpf_class(0, 256), mpf_class("3.1415926535897940", 256), true}; } else if (vi.uf == "asin") { r = Ival{mpf_class("-1.5707963267948970", 256), mpf_class("1.5707963267948970", 256), true}; } break;
    case V_SQRT: { Ival a = iv_poly(vi.args[0], depth + 1); if (!a.ok || a.hi < 0) return bad; if (a.lo < 0) a.lo = 0; r = Ival{sqrt(a.lo), sqrt(a.hi), true}; widen(r); if (r.lo < 0) r.lo = 0; } break;
    case V_ABS: { Ival a = iv_poly(vi.args[0], depth + 1); if (!a.ok) return bad; mpf_class al = abs(a.lo), ah = abs(a.hi); r.ok = true; r.hi = al > ah ? al : ah; r.lo = (a.lo <= 0 && a.hi >= 0) ? mpf_class(0, 256) : (al < ah ? al : ah); } break;
    case V_QUOT: { Ival a = iv_poly(vi.args[0], depth + 1), b = iv_poly(vi.args[1], depth + 1); if (!a.ok || !b.ok || (b.lo <= 0 && b.hi >= 0)) return bad; Ival inv{mpf_class(1, 256) / b.hi, mpf_class(1, 256) / b.lo, true}; widen(inv); r = iv_mul(a, inv); } break;
    case V_MAX: case V_MIN: { Ival a = iv_poly(vi.args[0], depth + 1), b = iv_poly(vi.args[1], depth + 1); if (!a.ok || !b.ok) return bad; r.ok = true;
      if (vi.kind == V_MAX) { r.lo = a.lo > b.lo ? a.lo : b.lo; r.hi = a.hi > b.hi ? a.hi : b.hi; } else { r.lo = a.lo < b.lo ? a.lo : b.lo; r.hi = a.hi < b.hi ? a.hi : b.hi; } } break;
    case V_ANGLE: r = Ival{mpf_class("-3.1415926535897940", 256), mpf_class("3.1415926535897940", 256), true}; break;
    case V_SIN: case V_COS: r = Ival{mpf_class(-1, 256), mpf_class(1, 256), true}; break;
    default: break;
  }
  if (bx != e.box.end()) { Ival b{mpf_class(bx->second.first, 256), mpf_class(bx->second.second, 256), true}; widen(b); if (!r.ok) r = b; else { if (b.lo > r.lo) r.lo = b.lo; if (b.hi < r.hi) r.hi = b.hi; } }
  return r;
}
static Ival iv_poly(const Poly& p, int depth) {
  // monomials are grouped by their non-constant part: the coefficient (rational times constant atoms such as sqrt(2)) is enclosed
  // first, so that  q*e - r*sqrt(c)*e  is enclosed as (q - r*sqrt(c))*e and not term by term
  std::map<Mono, Ival> groups;
  for (auto& kv : p) { Mono rest; Ival cf = iv_const(kv.second);
    for (Var v : kv.first) { Poly one = p_var(v); if (E().vars[v].kind != V_FREE && E().vars[v].kind != V_UNINIT && p_is_const(one)) { mpf_class val(0, 512);
        if (eval_var(v, val, 0)) { Ival c{mpf_class(val, 256), mpf_class(val, 256), true}; widen(c); cf = iv_mul(cf, c); }
        else rest.push_back(v); }            // e.g. an uninterpreted value of constant arguments: enclosed by its assumed range, like a symbol
      else rest.push_back(v); }
    auto it = groups.find(rest); if (it == groups.end()) groups.emplace(rest, cf); else { it->second.lo += cf.lo; it->second.hi += cf.hi; widen(it->second); } }
  Ival s{mpf_class(0, 256), mpf_class(0, 256), true};
  for (auto& g : groups) { Ival t = g.second; const Mono& mo = g.first;
    // equal factors are squared together (x*x >= 0)
    for (size_t i = 0; i < mo.size();) { size_t j = i; while (j < mo.size() && mo[j] == mo[i]) j++;
      Ival f = iv_var(mo[i], depth); if (!f.ok) return Ival{mpf_class(0, 256), mpf_class(0, 256), false};
      Ival pw = f; for (size_t k = i + 1; k < j; k++) pw = iv_mul(pw, f);
      if ((j - i) % 2 == 0 && pw.lo < 0) pw.lo = 0;
      t = iv_mul(t, pw); i = j; }
    s.lo += t.lo; s.hi += t.hi; }
  widen(s); return s;
}

static bool decide(const Poly& p, Rel rel) {
  Engine& e = E();
  mpq_class c;
  if (p_is_rational(p, &c)) return rel == R_LT ? c < 0 : rel == R_LE ? c <= 0 : c == 0;
  if (p_is_const(p)) { int sg; if (const_sign(p, sg)) return rel == R_LT ? sg < 0 : rel == R_LE ? sg <= 0 : sg == 0; }
  { int ss = sign_syntactic(p); if (ss > 0 && rel == R_LT) return false; if (ss < 0 && rel == R_LE) return true; }
  { Poly sq; if (square_two_terms(p, sq)) return decide(sq, rel); }
  if (e.in_path && !e.box.empty()) { Ival iv = iv_poly(p, 0);
    if (iv.ok) { if (iv.hi < 0) { if (e.st) e.st->interval_decided++; return rel == R_LT || rel == R_LE; }          // p < 0 everywhere in the box
                 if (iv.lo > 0) { if (e.st) e.st->interval_decided++; return false; } } }                              // p > 0 everywhere: neither <, <= nor == holds
  if (!e.in_path) throw Abort{Abort::Unsupported, "symbolic comparison outside a path"};
  if (++e.branches_this_path > e.pol.max_branches) throw Abort{Abort::Budget, "branch budget of the path exceeded"};
  if (e.st) e.st->branch_points++;
  z3::expr cnd = z_rel(p, rel);
  bool u1 = false, u2 = false;
  bool canT = feasible(cnd, {&p}, &u1);
  bool canF = feasible(!cnd, {&p}, &u2);
  if (u1 || u2) throw Abort{Abort::Unknown, "solver returned unknown for a branch condition: " + p_show(p, 200)};
  bool take;
  if (canT && canF) {
    e.path_symbolic = true;
    if (getenv("SX_TRACE")) fprintf(stderr, "[fork] const=%d %s\n", (int)p_is_const(p), p_show(p, 300).c_str());
    take = fork_point(2, nullptr) == 0;
  } else if (canT) take = true;
  else if (canF) take = false;
  else throw Abort{Abort::Infeasible, "path condition became unsatisfiable"};
  if (canT && canF) pc_add(take ? cnd : !cnd, {&p});
  return take;
}

bool truth(SymReal x) { return !decide(P(x), R_EQ); }

double approx(SymReal x) {
  const Poly& p = P(x);
  mpq_class c; if (p_is_rational(p, &c)) return c.get_d();
  if (p_is_const(p)) {
    { mpf_class v(0, 512); if (eval_const(p, v)) return v.get_d(); }
    // evaluate radicals numerically
    double s = 0;
    for (auto& kv : p) { double t = kv.second.get_d(); for (Var v : kv.first) {
        const VarInfo& vi = E().vars[v];
        if (vi.kind == V_SQRT) { SymReal a = mkc(vi.args[0]); t *= std::sqrt(approx(a)); } else return std::nan(""); }
      s += t; }
    return s;
  }
  return std::nan("");
}

long long to_integer(SymReal x) {
  Engine& e = E();
  const Poly& p0 = P(x);
  mpq_class c;
  if (p_is_rational(p0, &c)) { mpz_class q = c.get_num() / c.get_den(); /* truncates toward zero */ return q.get_si(); }
  Poly p = p0;
  if (p_is_const(p)) { double d = approx(x); return (long long)d; }
  // fork over feasible truncations: repeatedly ask the solver for a value
  for (int iter = 0; iter < 64; iter++) {
    std::set<Var> qv; vars_of(p, qv);
    z3::check_result r = query(nullptr, qv, e.pol.solver_timeout_ms, true);
    if (r != z3::sat || !e.model) throw Abort{r == z3::unknown ? Abort::Unknown : Abort::Infeasible, "integer conversion: solver"};
    z3::expr val = e.model->eval(z_of(p), true);
    std::string ds = val.get_decimal_string(6);
    double d = atof(ds.c_str());
    long long n = (long long)d;   // trunc
    z3::expr zp = z_of(p);
    z3::expr nn = e.ctx.real_val(std::to_string(n).c_str());
    z3::expr cnd = (n > 0) ? (zp >= nn && zp < nn + 1) : (n < 0) ? (zp <= nn && zp > nn - 1) : (zp > -1 && zp < 1);
    bool u = false;
    bool canF = feasible(!cnd, {&p}, &u);
    if (u) throw Abort{Abort::Unknown, "integer conversion: solver unknown"};
    if (!canF) { return n; }
    e.path_symbolic = true;
    if (e.st) e.st->branch_points++;
    int k = fork_point(2, nullptr);
    if (k == 0) { pc_add(cnd, {&p}); return n; }
    pc_add(!cnd, {&p});
  }
  throw Abort{Abort::Budget, "integer conversion has too many feasible values"};
}

// ---------------------------------------------------------------------------------------
// violations / models
// ---------------------------------------------------------------------------------------
static void record_violation(const std::string& label, const std::string& kind, const std::string& detail,
                             const Poly* term, bool with_model) {
  Engine& e = E();
  if (!e.st) return;
  Violation v; v.label = label; v.kind = kind; v.detail = detail;
  if (term) v.term = p_show(*term, 400);
  v.choices = e.choices; v.decisions = e.decisions;
  if (with_model && e.model) {
    try {
      z3::model& m = *e.model;
      for (size_t i = 0; i < e.vars.size(); i++) {
        const VarInfo& vi = e.vars[i];
        if (vi.kind != V_FREE && vi.kind != V_UNINIT) continue;
        if (vi.active_gen != e.gen) continue;
        z3::expr val = m.eval(e.zvars[i], true);
        std::string qs; double d = 0;
        if (val.is_numeral(qs)) { mpq_class q(qs); q.canonicalize(); d = q.get_d(); }
        else if (val.is_algebraic()) { qs = val.get_decimal_string(20); if (!qs.empty() && qs.back() == '?') qs.pop_back(); d = atof(qs.c_str()); }
        else { qs = "0"; d = 0; }
        v.inputs.push_back({vi.name, {qs, d}});
      }
    } catch (z3::exception&) {}
  }
  // keep at most a few per label
  int same = 0; for (auto& o : e.st->violations) if (o.label == label) same++;
  if (same < 3) e.st->violations.push_back(v);
  if (e.st->violations.size() > 40) throw Abort{Abort::Abandon, "too many violations in this case"};
}

// ---------------------------------------------------------------------------------------
// operators
// ---------------------------------------------------------------------------------------
} // namespace sx

using sx::P; using sx::mk;
SymReal operator+(SymReal a, SymReal b) { return mk(sx::p_add(P(a), P(b))); }
SymReal operator-(SymReal a, SymReal b) { return mk(sx::p_sub(P(a), P(b))); }
SymReal operator*(SymReal a, SymReal b) { return mk(sx::p_mul(P(a), P(b))); }
SymReal operator/(SymReal a, SymReal b) { sx::Poly n = P(a); sx::Poly d = P(b); return sx::quot_sym(n, d); }
SymReal SymReal::operator-() const { return mk(sx::p_neg(P(*this))); }
SymReal& SymReal::operator+=(SymReal o) { return *this = *this + o; }
SymReal& SymReal::operator-=(SymReal o) { return *this = *this - o; }
SymReal& SymReal::operator*=(SymReal o) { return *this = *this * o; }
SymReal& SymReal::operator/=(SymReal o) { return *this = *this / o; }
SymReal& SymReal::operator++() { return *this = *this + SymReal(1); }
SymReal SymReal::operator++(int) { SymReal t = *this; *this = *this + SymReal(1); return t; }
SymReal& SymReal::operator--() { return *this = *this - SymReal(1); }
SymReal SymReal::operator--(int) { SymReal t = *this; *this = *this - SymReal(1); return t; }
bool operator<(SymReal a, SymReal b) { return sx::decide(sx::p_sub(P(a), P(b)), sx::R_LT); }
bool operator<=(SymReal a, SymReal b) { return sx::decide(sx::p_sub(P(a), P(b)), sx::R_LE); }
bool operator>(SymReal a, SymReal b) { return b < a; }
bool operator>=(SymReal a, SymReal b) { return b <= a; }
bool operator==(SymReal a, SymReal b) { return sx::decide(sx::p_sub(P(a), P(b)), sx::R_EQ); }
bool operator!=(SymReal a, SymReal b) { return !(a == b); }

SymReal sqrt(SymReal a) { sx::Poly p = P(a); return sx::sqrt_sym(p); }
SymReal fabs(SymReal a) { sx::Poly p = P(a); return sx::abs_sym(p); }
SymReal abs(SymReal a) { return fabs(a); }
SymReal sin(SymReal a) { sx::Poly p = P(a); return mk(sx::Poly(sx::sincos_poly(p).s)); }
SymReal cos(SymReal a) { sx::Poly p = P(a); return mk(sx::Poly(sx::sincos_poly(p).c)); }
SymReal tan(SymReal a) { sx::Poly p = P(a); sx::SC sc = sx::sincos_poly(p); return sx::quot_sym(sc.s, sc.c); }
SymReal atan2(SymReal y, SymReal x) { sx::Poly py = P(y), px = P(x); return sx::atan2_sym(py, px); }
SymReal atan(SymReal a) { return atan2(a, SymReal(1)); }
static SymReal sx_uf1(const char* f, SymReal a) { sx::Poly p = P(a); return sx::uf_sym(f, {p}); }
SymReal asin(SymReal a) {
  mpq_class c; const sx::Poly& p = P(a);
  if (sx::p_is_rational(p, &c)) { if (c == 0) return SymReal(0); if (c == 1) return mk(sx::p_const(sx::PI_Q() / 2)); if (c == -1) return mk(sx::p_const(-sx::PI_Q() / 2)); }
  return sx_uf1("asin", a);
}
SymReal acos(SymReal a) {
  mpq_class c; const sx::Poly& p = P(a);
  if (sx::p_is_rational(p, &c)) { if (c == 1) return SymReal(0); if (c == 0) return mk(sx::p_const(sx::PI_Q() / 2)); if (c == -1) return mk(sx::p_const(sx::PI_Q())); }
  return sx_uf1("acos", a);
}
SymReal exp(SymReal a) { mpq_class c; if (sx::p_is_rational(P(a), &c) && c == 0) return SymReal(1); return sx_uf1("exp", a); }
SymReal log(SymReal a) { mpq_class c; if (sx::p_is_rational(P(a), &c) && c == 1) return SymReal(0); return sx_uf1("log", a); }
SymReal log10(SymReal a) { mpq_class c; if (sx::p_is_rational(P(a), &c) && c == 1) return SymReal(0); return sx_uf1("log10", a); }
SymReal pow(SymReal a, SymReal b) {
  mpq_class e;
  if (sx::p_is_rational(P(b), &e)) {
    if (e.get_den() == 1 && abs(e.get_num()) <= 16) {
      long n = e.get_num().get_si();
      SymReal r(1); for (long i = 0; i < (n < 0 ? -n : n); i++) r = r * a;
      return n < 0 ? SymReal(1) / r : r;
    }
    if (e == mpq_class(1, 2)) return sqrt(a);
    if (e == mpq_class(3, 2)) return a * sqrt(a);
    if (e == mpq_class(-1, 2)) return SymReal(1) / sqrt(a);
  }
  sx::Poly pa = P(a), pb = P(b);
  return sx::uf_sym("pow", {pa, pb});
}
SymReal hypot(SymReal a, SymReal b) { return sqrt(a * a + b * b); }
SymReal fmax(SymReal a, SymReal b) { sx::Poly pa = P(a), pb = P(b); return sx::minmax_sym(pa, pb, true); }
SymReal fmin(SymReal a, SymReal b) { sx::Poly pa = P(a), pb = P(b); return sx::minmax_sym(pa, pb, false); }
namespace std {
  SymReal max(SymReal a, SymReal b) { return ::fmax(a, b); }
  SymReal min(SymReal a, SymReal b) { return ::fmin(a, b); }
}
SymReal trunc(SymReal a) { return SymReal((long long)sx::to_integer(a)); }
SymReal floor(SymReal a) {
  mpq_class c; if (sx::p_is_rational(P(a), &c)) { mpz_class f; mpz_fdiv_q(f.get_mpz_t(), c.get_num_mpz_t(), c.get_den_mpz_t()); return mk(sx::p_const(mpq_class(f))); }
  long long n = sx::to_integer(a);          // forks on the truncation; then floor differs for negatives
  SymReal t((long long)n);
  if (a < t) return SymReal((long long)(n - 1));
  return t;
}
SymReal ceil(SymReal a) { return -floor(-a); }
SymReal round(SymReal a) { if (a >= SymReal(0)) return floor(a + SymReal(0.5)); return -floor(-a + SymReal(0.5)); }
SymReal fmod(SymReal a, SymReal b) { SymReal q = trunc(a / b); return a - q * b; }
SymReal modf(SymReal a, SymReal* ip) { SymReal t = trunc(a); *ip = t; return a - t; }
bool isnan(SymReal) { return false; }
bool isinf(SymReal) { return false; }
bool isfinite(SymReal) { return true; }
bool signbit(SymReal a) { return a < SymReal(0); }

// ---------------------------------------------------------------------------------------
// stream I/O and magic literals
// ---------------------------------------------------------------------------------------
std::ostream& operator<<(std::ostream& o, SymReal a) {
  const sx::Poly& p = P(a);
  mpq_class c;
  if (sx::p_is_rational(p, &c)) return o << c.get_d();
  if (sx::p_is_const(p)) { double v = sx::approx(a); if (v == v) return o << v; }     // constants with uninterpreted atoms travel as literals
  // a symbolic number: print a reserved literal that reads back as the same term
  sx::Engine& e = sx::E();
  std::string key = sx::p_key(p);
  auto it = e.magic_of.find(key);
  double d;
  if (it != e.magic_of.end()) d = it->second;
  else { d = 7654321.0 + (double)(e.magic_of.size() + 1) / 4096.0; e.magic_of[key] = d; e.magic[d] = p; }
  std::ios::fmtflags f = o.flags(); std::streamsize pr = o.precision();
  o << std::fixed << std::setprecision(12) << d;
  o.flags(f); o.precision(pr);
  return o;
}
std::istream& operator>>(std::istream& i, SymReal& a) {
  double d; i >> d;
  if (!i.fail()) {
    sx::Engine& e = sx::E();
    auto it = e.magic.find(d);
    if (it != e.magic.end()) a = sx::mkc(it->second); else a = SymReal(d);
  }
  return i;
}

// ---------------------------------------------------------------------------------------
// harness API
// ---------------------------------------------------------------------------------------
namespace sx {

void magic_reset() { E().magic.clear(); E().magic_of.clear(); }
Real uf(const std::string& name, std::initializer_list<Real> args) { std::vector<Poly> a; for (const Real& r : args) a.push_back(P(r)); return uf_sym(name, a); }
bool symbolic_mode() { return true; }
Policy& policy() { return E().pol; }

// does the atom / polynomial mention the free symbol v (through any depth of atom arguments)?
static bool p_mentions(const Poly& p, Var v, int depth = 0);
static bool var_mentions(Var a, Var v, int depth) {
  if (a == v) return true;
  if (depth > 64) return true;
  for (const Poly& q : E().vars[a].args) if (p_mentions(q, v, depth + 1)) return true;
  return false;
}
static bool p_mentions(const Poly& p, Var v, int depth) {
  for (auto& kv : p) for (Var a : kv.first) if (var_mentions(a, v, depth)) return true;
  return false;
}
static Var single_symbol(Real var, const char* who) {
  const Poly& pv = P(var);
  if (pv.size() != 1 || pv.begin()->first.size() != 1 || pv.begin()->second != 1 || E().vars[pv.begin()->first[0]].kind != V_FREE)
    throw Abort{Abort::Unsupported, std::string(who) + ": the variable must be a free input symbol"};
  return pv.begin()->first[0];
}
// d term / d var, for a term that is a polynomial in the free symbol var (atoms must not depend on it)
Real derivative(Real term, Real var) {
  Var v = single_symbol(var, "derivative");
  Poly p = P(term), r;
  for (auto& kv : p) {
    int k = 0;
    for (Var a : kv.first) { if (a == v) k++; else if (var_mentions(a, v, 0)) throw Abort{Abort::Unsupported, "derivative: an atom depends on the variable"}; }
    if (!k) continue;
    Mono m; bool dropped = false;
    for (Var a : kv.first) { if (a == v && !dropped) { dropped = true; continue; } m.push_back(a); }
    p_addto(r, m, kv.second * k);
  }
  return mk(std::move(r));
}
// term with the free symbol var replaced by value (atoms must not depend on var)
Real substitute(Real term, Real var, Real value) {
  Var v = single_symbol(var, "substitute");
  Poly p = P(term), val = P(value), r;
  for (auto& kv : p) {
    int k = 0; Mono m;
    for (Var a : kv.first) { if (a == v) k++; else { if (var_mentions(a, v, 0)) throw Abort{Abort::Unsupported, "substitute: an atom depends on the variable"}; m.push_back(a); } }
    Poly t; t[m] = kv.second;
    for (int i = 0; i < k; i++) t = p_mul(t, val);
    r = p_add(r, t);
  }
  return mk(std::move(r));
}

Real input(const std::string& name) {
  int v = find_var("F:" + name);
  if (v < 0) v = new_var(V_FREE, name, "F:" + name);
  E().vars[v].active_gen = E().gen;
  E().path_symbolic = true;
  return mk(p_var((Var)v));
}
Real constant(const mpq_class& q) { mpq_class c = q; c.canonicalize(); return mk(p_const(c)); }

int choose(int n, const char* what) {
  Engine& e = E();
  (void)what;
  if (n <= 0) throw Abort{Abort::Abandon, "choose over an empty set"};
  int k = (n == 1) ? 0 : fork_point(n, nullptr);
  e.choices.push_back(k);
  if (e.log) (*e.log) << "{\"type\":\"choice\",\"k\":" << k << "}" << std::endl;
  return k;
}

void assume_ge0(Real t) { Poly p = P(t); pc_add(z_of(p) >= 0, {&p}); }
void assume_pos(Real t) { Poly p = P(t); pc_add(z_of(p) > 0, {&p}); }
void assume_ne0(Real t) { Poly p = P(t); pc_add(z_of(p) != 0, {&p}); }
void assume_range(Real t, const mpq_class& lo, const mpq_class& hi) {
  Engine& e = E(); Poly p = P(t); z3::expr z = z_of(p);
  if (p.size() == 1 && p.begin()->first.size() == 1 && p.begin()->second == 1) {     // a single symbol: remember its box for the interval pre-filter
    Var v = p.begin()->first[0]; auto it = e.box.find(v);
    if (it == e.box.end()) e.box[v] = {lo, hi}; else { if (lo > it->second.first) it->second.first = lo; if (hi < it->second.second) it->second.second = hi; } }
  pc_add(z >= e.ctx.real_val(lo.get_str().c_str()) && z <= e.ctx.real_val(hi.get_str().c_str()), {&p});
}
void assume_le(Real a, Real b) { assume_ge0(b - a); }
void assume_lt(Real a, Real b) { assume_pos(b - a); }

static void dump_query(const std::string& label, const std::string& smt) {
  Engine& e = E();
  if (e.smt_dir.empty() || e.smt_count >= 400) return;
  std::string fn = e.smt_dir + "/q" + std::to_string(e.smt_count++) + ".smt2";
  std::ofstream f(fn);
  f << "; " << label << "\n(set-logic ALL)\n" << smt << "\n(check-sat)\n";
  if (e.st) e.st->smt_dumps.push_back(fn);
}

static void check_rel(const Poly& p, int mode, const std::string& label) {
  // mode 0: p == 0 ; 1: p >= 0 ; 2: p > 0
  Engine& e = E();
  if (e.st) e.st->asserts++;
  mpq_class c;
  if (p_is_rational(p, &c)) {
    bool ok = mode == 0 ? c == 0 : mode == 1 ? c >= 0 : c > 0;
    if (e.st) e.st->nf_trivial++;
    if (!ok) { query(nullptr, std::set<Var>(), e.pol.solver_timeout_ms, true, true); record_violation(label, "assertion", "constant " + c.get_str() + " violates the claim", &p, true); }
    return;
  }
  if (p_is_const(p)) {
    int sg;
    if (const_sign(p, sg)) {
      bool ok = mode == 0 ? sg == 0 : mode == 1 ? sg >= 0 : sg > 0;
      if (e.st) e.st->nf_trivial++;
      if (!ok) { query(nullptr, std::set<Var>(), e.pol.solver_timeout_ms, true, true); record_violation(label, "assertion", "constant " + p_show(p, 200) + " violates the claim", &p, true); }
      return;
    }
  }
  if (mode == 1 && sign_syntactic(p) > 0) { if (e.st) e.st->nf_trivial++; return; }
  { Poly sq; if (square_two_terms(p, sq)) { if (e.st) e.st->asserts--; check_rel(sq, mode, label); return; } }
  // inequalities that hold on the whole assumed box (a weaker assumption than the path condition) need no query
  if (mode != 0 && e.in_path && !e.box.empty()) { Ival iv = iv_poly(p, 0);
    if (getenv("SX_TRACE")) fprintf(stderr, "[interval] %s ok=%d lo=%g hi=%g terms=%zu\n", label.substr(0, 60).c_str(), (int)iv.ok, iv.lo.get_d(), iv.hi.get_d(), p.size());
    if (iv.ok && (mode == 1 ? iv.lo >= 0 : iv.lo > 0)) { if (e.st) { e.st->interval_decided++; e.st->nontrivial_sites.insert(label); } e.path_symbolic = true; return; } }
  if (e.st) e.st->nontrivial_sites.insert(label);
  e.path_symbolic = true;
  z3::expr z = z_of(p);
  z3::expr neg = mode == 0 ? z != 0 : mode == 1 ? z < 0 : z <= 0;
  std::set<Var> qv; vars_of(p, qv);
  std::string smt;
  z3::check_result r = query(&neg, qv, e.pol.solver_timeout_ms, false, false, e.smt_dir.empty() ? nullptr : &smt);
  if (!e.smt_dir.empty()) dump_query(label + "\n; z3: " + (r == z3::sat ? "sat" : r == z3::unsat ? "unsat" : "unknown"), smt);
  if (r == z3::sat) {
    // complete model over the whole path condition for the replay
    z3::check_result rf = query(&neg, qv, e.pol.solver_timeout_ms, true, true);
    if (rf != z3::sat) query(&neg, qv, e.pol.solver_timeout_ms, true, false);
    record_violation(label, "assertion", mode == 0 ? "term can be non-zero" : "term can be negative", &p, true);
  } else if (r == z3::unsat) {
    if (e.st) e.st->solver_proved++;
  } else {
    if (e.st) e.st->inconclusive.push_back("solver unknown at assertion " + label);
  }
}

void check_zero(Real t, const std::string& label) { Poly p = P(t); check_rel(p, 0, label); }
void check_eq(Real a, Real b, const std::string& label) { check_rel(p_sub(P(a), P(b)), 0, label); }
void check_ge0(Real t, const std::string& label) { Poly p = P(t); check_rel(p, 1, label); }
void check_le(Real a, Real b, const std::string& label) { check_rel(p_sub(P(b), P(a)), 1, label); }
void check_lt(Real a, Real b, const std::string& label) { check_rel(p_sub(P(b), P(a)), 2, label); }
void check_true(bool cond, const std::string& label, const std::string& detail) {
  Engine& e = E();
  if (e.st) { e.st->asserts++; e.st->native_checks++; }
  if (!cond) {
    // the path condition is satisfiable (every fork was checked): ask for a model of it
    bool have = false;
    if (e.in_path) { z3::check_result r = query(nullptr, std::set<Var>(), e.pol.solver_timeout_ms, true, true); have = (r == z3::sat); }
    record_violation(label, "assertion", detail, nullptr, have);
  }
}
void fail(const std::string& label, const std::string& detail) { check_true(false, label, detail); }
void reached(const std::string& site) { if (E().st) E().st->reached[site]++; }
void note(const std::string& k, const std::string& v) { if (E().st && E().st->notes.size() < 40) E().st->notes.push_back({k, v}); }

bool is_const(Real t) { return p_is_const(P(t)); }
bool is_rational(Real t, mpq_class* out) { return p_is_rational(P(t), out); }
bool mentions_symbols(Real t) { return !p_is_const(P(t)); }
std::string show(Real t) { return p_show(P(t)); }
f64 numeric(Real t) { return approx(t); }
f64 numeric0(Real t) {
  const Poly& p = P(t); Poly q;
  for (auto& kv : p) { bool cst = true; for (Var v : kv.first) { Poly one = p_var(v); if (!p_is_const(one)) { cst = false; break; } } if (cst) q[kv.first] = kv.second; }
  return approx(mk(std::move(q)));
}

// ---------------------------------------------------------------------------------------
// exploration driver
// ---------------------------------------------------------------------------------------
static std::string jesc(const std::string& s) {
  std::string o;
  for (unsigned char ch : s) {
    if (ch == '"') o += "\\\""; else if (ch == '\\') o += "\\\\"; else if (ch == '\n') o += "\\n";
    else if (ch < 0x20) { char b[8]; snprintf(b, sizeof b, "\\u%04x", ch); o += b; } else o += (char)ch;
  }
  return o;
}
static std::string jints(const std::vector<int>& v) { std::string s = "["; for (size_t i = 0; i < v.size(); i++) { if (i) s += ","; s += std::to_string(v[i]); } return s + "]"; }

static void write_case(std::ostream& o, const std::string& harness, const Case& c, const CaseStats& s) {
  o << "{\"type\":\"case\",\"harness\":\"" << jesc(harness) << "\",\"name\":\"" << jesc(c.name) << "\",\"family\":\"" << jesc(c.family) << "\""
    << ",\"paths\":" << s.paths << ",\"forks\":" << s.forks << ",\"branch_points\":" << s.branch_points
    << ",\"q_sat\":" << s.q_sat << ",\"q_unsat\":" << s.q_unsat << ",\"q_unknown\":" << s.q_unknown
    << ",\"asserts\":" << s.asserts << ",\"nf_trivial\":" << s.nf_trivial << ",\"solver_proved\":" << s.solver_proved
    << ",\"native_checks\":" << s.native_checks << ",\"interval_decided\":" << s.interval_decided << ",\"relaxed_unsat\":" << s.relaxed_unsat << ",\"faults\":" << s.faults << ",\"abandoned\":" << s.abandoned
    << ",\"exceptions\":" << s.exceptions << ",\"symbolic_paths\":" << s.symbolic_paths << ",\"uninit_reads\":" << s.uninit_reads
    << ",\"max_symbols\":" << s.max_symbols << ",\"div0_assumed\":" << s.div0_assumed << ",\"sqrtneg_assumed\":" << s.sqrtneg_assumed << ",\"aux_unknown\":" << s.aux_unknown
    << ",\"solver_s\":" << s.solver_s << ",\"wall_s\":" << s.wall_s;
  o << ",\"reached\":{"; { bool f = true; for (auto& kv : s.reached) { if (!f) o << ","; f = false; o << "\"" << jesc(kv.first) << "\":" << kv.second; } } o << "}";
  o << ",\"nontrivial_sites\":" << s.nontrivial_sites.size();
  o << ",\"notes\":["; { bool f = true; for (auto& kv : s.notes) { if (!f) o << ","; f = false; o << "[\"" << jesc(kv.first) << "\",\"" << jesc(kv.second) << "\"]"; } } o << "]";
  o << ",\"inconclusive\":["; { bool f = true; for (auto& r : s.inconclusive) { if (!f) o << ","; f = false; o << "\"" << jesc(r) << "\""; } } o << "]";
  o << ",\"smt_dumps\":["; { bool f = true; for (auto& r : s.smt_dumps) { if (!f) o << ","; f = false; o << "\"" << jesc(r) << "\""; } } o << "]";
  o << ",\"violations\":[";
  bool f = true;
  for (auto& v : s.violations) {
    if (!f) o << ","; f = false;
    o << "{\"label\":\"" << jesc(v.label) << "\",\"kind\":\"" << jesc(v.kind) << "\",\"detail\":\"" << jesc(v.detail) << "\",\"term\":\"" << jesc(v.term) << "\""
      << ",\"choices\":" << jints(v.choices) << ",\"decisions\":" << jints(v.decisions) << ",\"inputs\":{";
    bool g = true;
    for (auto& in : v.inputs) { if (!g) o << ","; g = false; char b[64]; snprintf(b, sizeof b, "%.17g", in.second.second);
      o << "\"" << jesc(in.first) << "\":{\"q\":\"" << jesc(in.second.first) << "\",\"d\":" << b << "}"; }
    o << "}}";
  }
  o << "]}" << std::endl;
}

static void explore_case(const Case& c, CaseStats& st, const Policy& base_policy, std::ostream& log, double deadline) {
  Engine& e = E();
  e.st = &st; e.log = &log;
  e.worklist.clear(); e.worklist.push_back(std::vector<int>());
  double t0 = now_s();
  while (!e.worklist.empty()) {
    if (st.paths >= base_policy.max_paths) { st.inconclusive.push_back("path budget exceeded (" + std::to_string(base_policy.max_paths) + ")"); break; }
    if (now_s() > deadline) { st.inconclusive.push_back("time budget exceeded"); break; }
    e.prefix = e.worklist.back(); e.worklist.pop_back();
    // fresh path state
    e.gen++; if ((e.gen & 0xFFFF) == 0) e.gen++;
    e.terms.clear(); e.terms.shrink_to_fit();
    e.decisions.clear(); e.choices.clear(); e.dpos = 0; e.branches_this_path = 0; e.uninit_counter = 0; e.path_symbolic = false;
    e.pol = base_policy;
    e.pc.clear(); e.pc_idx.clear(); e.pc_rel.clear(); e.box.clear(); e.model.reset(); e.in_path = true;
    e.magic.clear(); e.magic_of.clear();
    log << "{\"type\":\"path\",\"name\":\"" << jesc(c.name) << "\",\"prefix\":" << jints(e.prefix) << "}" << std::endl;
    st.paths++;
    try {
      c.run();
    } catch (Abort& a) {
      switch (a.kind) {
        case Abort::Budget: st.inconclusive.push_back("budget: " + a.why); break;
        case Abort::Unknown: st.inconclusive.push_back("unknown: " + a.why); break;
        case Abort::Unsupported: st.inconclusive.push_back("unsupported: " + a.why); break;
        case Abort::Infeasible: st.inconclusive.push_back("infeasible: " + a.why); break;
        case Abort::Fault: st.faults++; { bool have = false; try { have = query(nullptr, std::set<Var>(), e.pol.solver_timeout_ms, true, true) == z3::sat; } catch (...) {}
            try { record_violation("fault", "fault", a.why, nullptr, have); } catch (Abort&) {} } break;
        case Abort::Abandon: st.abandoned++; break;
      }
    } catch (std::exception& ex) {
      st.exceptions++;
      try { record_violation("uncaught-exception", "exception", std::string(typeid(ex).name()) + ": " + ex.what(), nullptr, true); } catch (Abort&) {}
    } catch (...) {
      st.exceptions++;
      try { record_violation("uncaught-exception", "exception", "non-std exception escaped the harness", nullptr, true); } catch (Abort&) {}
    }
    if (e.path_symbolic) st.symbolic_paths++;
    size_t nact = 0; for (auto& vi : e.vars) if (vi.active_gen == e.gen) nact++;
    st.max_symbols = std::max(st.max_symbols, nact);
    if (st.violations.size() > 40) break;
    if (st.inconclusive.size() > 20) break;
  }
  e.pc.clear(); e.pc_idx.clear(); e.model.reset(); e.in_path = false;
  e.st = nullptr;
  st.wall_s = now_s() - t0;
}

static unsigned long name_hash(const std::string& s) { unsigned long h = 1469598103934665603ul; for (unsigned char c : s) { h ^= c; h *= 1099511628211ul; } return h; }

int run_main(int argc, char** argv, const char* harness_name, CaseGen gen) {
  Options opt; std::string out = "", only = "", smt = "";
  int shard_i = 0, shard_n = 1; bool list = false; double budget_s = 1e9;
  Policy pol;
  for (int i = 1; i < argc; i++) {
    std::string a = argv[i];
    auto next = [&]() -> std::string { if (i + 1 >= argc) { std::cerr << "missing value for " << a << "\n"; exit(2); } return argv[++i]; };
    if (a == "--tier") opt.tier = next();
    else if (a == "--seed") opt.seed = atol(next().c_str());
    else if (a == "--prop") opt.prop = next();
    else if (a == "--out") out = next();
    else if (a == "--case") only = next();
    else if (a == "--shard") { std::string s = next(); sscanf(s.c_str(), "%d/%d", &shard_i, &shard_n); }
    else if (a == "--list") list = true;
    else if (a == "--max-paths") pol.max_paths = atol(next().c_str());
    else if (a == "--budget-s") budget_s = atof(next().c_str());
    else if (a == "--smt-dir") smt = next();
    else if (a == "--skip") { /* handled below */ next(); }
    else { std::cerr << "unknown option " << a << "\n"; return 2; }
  }
  std::set<std::string> skip;
  for (int i = 1; i + 1 < argc; i++) if (std::string(argv[i]) == "--skip") { std::ifstream f(argv[i + 1]); std::string l; while (std::getline(f, l)) if (!l.empty()) skip.insert(l); }
  // thorough tier: the families are generated for three consecutive seeds (the seed-dependent members differ, fixed members repeat);
  // cases of the later seeds carry the suffix #s<k>, so a replay file names its case uniquely
  std::vector<Case> cases;
  { int nseeds = (opt.tier == "thorough") ? 3 : 1;
    for (int k = 0; k < nseeds; k++) { Options o2 = opt; o2.seed = opt.seed + k; std::vector<Case> t; gen(o2, t); for (auto& c : t) { if (k > 0) c.name += "#s" + std::to_string(k); cases.push_back(c); } } }
  if (list) { for (auto& c : cases) std::cout << c.name << "\n"; return 0; }
  std::ofstream fout; std::ostream* o = &std::cout;
  if (!out.empty()) { fout.open(out, std::ios::app); o = &fout; }
  E().smt_dir = smt;
  double deadline = now_s() + budget_s;
  long ncases = 0;
  // cases are distributed round-robin over shards in list order (deterministic)
  for (size_t k = 0; k < cases.size(); k++) {
    const Case& c = cases[k];
    if (!only.empty()) { if (c.name != only) continue; }
    else if ((int)(k % shard_n) != shard_i) continue;
    if (skip.count(c.name)) continue;
    (*o) << "{\"type\":\"start\",\"name\":\"" << jesc(c.name) << "\"}" << std::endl;
    CaseStats st;
    explore_case(c, st, pol, *o, deadline);
    write_case(*o, harness_name, c, st);
    ncases++;
  }
  (*o) << "{\"type\":\"done\",\"harness\":\"" << harness_name << "\",\"cases\":" << ncases << ",\"total_cases\":" << cases.size() << "}" << std::endl;
  (void)name_hash;
  return 0;
}

} // namespace sx

// ---------------------------------------------------------------------------------------
// poisoned allocation: fresh heap storage is filled with a pattern that the engine recognises
// as "uninitialised scalar".  (malloc itself is left alone.)
// ---------------------------------------------------------------------------------------
#include <new>
static void* sx_alloc(std::size_t n) {
  if (n == 0) n = 1;
  void* p = std::malloc(n);
  if (!p) throw std::bad_alloc();
  std::memset(p, 0xA5, n);
  return p;
}
void* operator new(std::size_t n) { return sx_alloc(n); }
void* operator new[](std::size_t n) { return sx_alloc(n); }
void operator delete(void* p) noexcept { std::free(p); }
void operator delete[](void* p) noexcept { std::free(p); }
void operator delete(void* p, std::size_t) noexcept { std::free(p); }
void operator delete[](void* p, std::size_t) noexcept { std::free(p); }
