// Exact rational linear algebra for the harness oracles (independent of the code under test).
#pragma once
#include <gmpxx.h>
#include <vector>
#include <string>
#include <stdexcept>
#include <cstdint>

namespace qla {
typedef mpq_class Q;
typedef std::vector<Q> QVec;
struct QMat {
  int r = 0, c = 0; std::vector<Q> a;
  QMat() {}
  QMat(int r_, int c_) : r(r_), c(c_), a((size_t)r_ * c_) {}
  Q& operator()(int i, int j) { return a[(size_t)i * c + j]; }          // 0-based
  const Q& operator()(int i, int j) const { return a[(size_t)i * c + j]; }
};
inline QMat eye(int n) { QMat m(n, n); for (int i = 0; i < n; i++) m(i, i) = 1; return m; }
inline QMat trans(const QMat& a) { QMat t(a.c, a.r); for (int i = 0; i < a.r; i++) for (int j = 0; j < a.c; j++) t(j, i) = a(i, j); return t; }
inline QMat mul(const QMat& a, const QMat& b) {
  if (a.c != b.r) throw std::logic_error("qla::mul dims");
  QMat m(a.r, b.c);
  for (int i = 0; i < a.r; i++) for (int k = 0; k < a.c; k++) { if (a(i, k) == 0) continue; for (int j = 0; j < b.c; j++) m(i, j) += a(i, k) * b(k, j); }
  return m;
}
inline QMat sub(const QMat& a, const QMat& b) { QMat m = a; for (size_t i = 0; i < m.a.size(); i++) m.a[i] -= b.a[i]; return m; }
inline bool is_zero(const QMat& a) { for (auto& x : a.a) if (x != 0) return false; return true; }

// reduced row echelon form; returns rank, pivots = pivot column of each pivot row
inline int rref(QMat& m, std::vector<int>& pivots) {
  pivots.clear(); int row = 0;
  for (int col = 0; col < m.c && row < m.r; col++) {
    int p = -1; for (int i = row; i < m.r; i++) if (m(i, col) != 0) { p = i; break; }
    if (p < 0) continue;
    if (p != row) for (int j = 0; j < m.c; j++) std::swap(m(p, j), m(row, j));
    Q d = m(row, col); for (int j = 0; j < m.c; j++) m(row, j) /= d;
    for (int i = 0; i < m.r; i++) if (i != row && m(i, col) != 0) { Q f = m(i, col); for (int j = 0; j < m.c; j++) m(i, j) -= f * m(row, j); }
    pivots.push_back(col); row++;
  }
  return row;
}
inline int rank(const QMat& a) { QMat m = a; std::vector<int> p; return rref(m, p); }
// inverse by Gauss-Jordan; throws if singular
inline QMat inverse(const QMat& a) {
  if (a.r != a.c) throw std::logic_error("qla::inverse not square");
  int n = a.r; QMat m(n, 2 * n);
  for (int i = 0; i < n; i++) { for (int j = 0; j < n; j++) m(i, j) = a(i, j); m(i, n + i) = 1; }
  std::vector<int> piv; rref(m, piv);
  for (int i = 0; i < n; i++) if ((int)piv.size() <= i || piv[i] != i) throw std::logic_error("qla::inverse singular");
  QMat inv(n, n); for (int i = 0; i < n; i++) for (int j = 0; j < n; j++) inv(i, j) = m(i, n + j);
  return inv;
}
// basis of the null space of a (columns of the result), dimension = a.c - rank
inline QMat nullspace(const QMat& a) {
  QMat m = a; std::vector<int> piv; int rk = rref(m, piv);
  std::vector<bool> isp(a.c, false); for (int p : piv) isp[p] = true;
  QMat g(a.c, a.c - rk); int k = 0;
  for (int f = 0; f < a.c; f++) if (!isp[f]) {
    g(f, k) = 1;
    for (int i = 0; i < rk; i++) g(piv[i], k) = -m(i, f);
    k++;
  }
  return g;
}
inline bool is_spd(const QMat& a) {      // leading principal minors via elimination
  if (a.r != a.c) return false; QMat m = a; int n = a.r;
  for (int k = 0; k < n; k++) { if (m(k, k) <= 0) return false; for (int i = k + 1; i < n; i++) { Q f = m(i, k) / m(k, k); for (int j = k; j < n; j++) m(i, j) -= f * m(k, j); } }
  return true;
}
// minimum-norm (over subset S) least squares solution: the unique minimiser x of ||A x - b||_P with G_S' x_S = 0
// returned as an affine map is not needed; for concrete b only in tests.

// deterministic small PRNG (splitmix64) so that families depend only on the seed
struct Rng { uint64_t s; explicit Rng(uint64_t seed) : s(seed * 0x9E3779B97F4A7C15ull + 0x1234567ull) {}
  uint64_t next() { uint64_t z = (s += 0x9E3779B97F4A7C15ull); z = (z ^ (z >> 30)) * 0xBF58476D1CE4E5B9ull; z = (z ^ (z >> 27)) * 0x94D049BB133111EBull; return z ^ (z >> 31); }
  int range(int lo, int hi) { return lo + (int)(next() % (uint64_t)(hi - lo + 1)); }   // inclusive
  bool coin(int num, int den) { return (int)(next() % den) < num; }
};
inline std::string show(const QMat& m) { std::string s = "["; for (int i = 0; i < m.r; i++) { if (i) s += "; "; for (int j = 0; j < m.c; j++) { if (j) s += " "; s += m(i, j).get_str(); } } return s + "]"; }
}
