// Harness "hist" (C04): every quantity a solver object can be asked for has one value, whatever
// was asked before.  For each skeleton x algorithm x first operation, all call sequences up to the
// stated length are executed on one object; the answer to the LAST query must equal (as a term in
// the symbolic right-hand side) the answer of a fresh object that is given the same input and the
// regularisation in effect and is asked only that question.
#include "adjcommon.h"
#ifndef SX_REPLAY
#include "svd_contract.h"
#endif
#include <iostream>
#include <functional>

using namespace H;
typedef GNU_gama::Exception::matvec Exc;
typedef AdjBase<Real, int, Exc> Base;

struct Answer { bool thrown = false; std::vector<Real> v; };

struct Op { std::string name; int kind; int i = 0, j = 0; };   // kind: 0 x,1 r,2 ss,3 defect,4 qxx,5 qbb,6 q0xx,7 lindep,8 minx all,9 minx S,10 reset
static bool is_query(const Op& o) { return o.kind <= 7; }

struct World {
  Problem p; std::vector<Real> b; int alg;      // 0 envelope 1 cholesky 2 gso 3 svd
  QMat At; std::vector<Real> bt;
  Mat<Real, int, Exc> A; Vec<Real, int, Exc> rhs;
  std::unique_ptr<AdjInputData> in;
  std::vector<std::vector<int>> subsets;       // regularisation settings: index 0 = all
  void setup() {
    QMat Linv = qla::inverse(chol_full(p));
    At = qla::mul(Linv, p.A);
    bt.assign(p.m, sx::rat(0));
    for (int i = 0; i < p.m; i++) bt[i] = dotQ(Linv, i, b);
    A.reset(p.m, p.n); rhs.reset(p.m);
    for (int i = 0; i < p.m; i++) { rhs(i + 1) = bt[i]; for (int j = 0; j < p.n; j++) A(i + 1, j + 1) = sx::constant(At(i, j)); }
    in.reset(make_input(p, b));
  }
};

struct Obj {
  std::unique_ptr<Base> s; int alg;
  void give_input(World& w) {
    switch (alg) {
      case 0: static_cast<AdjEnvelope<Real, int, Exc>*>(s.get())->reset(w.in.get()); break;
      case 1: static_cast<AdjCholDec<Real, int, Exc>*>(s.get())->reset(w.A, w.rhs); break;
      case 2: static_cast<AdjGSO<Real, int, Exc>*>(s.get())->reset(w.A, w.rhs); break;
      case 3: static_cast<AdjSVD<Real, int, Exc>*>(s.get())->reset(w.A, w.rhs); break;
    }
  }
  static Obj make(int alg) {
    Obj o; o.alg = alg;
    switch (alg) {
      case 0: o.s.reset(new AdjEnvelope<Real, int, Exc>); break;
      case 1: o.s.reset(new AdjCholDec<Real, int, Exc>); break;
      case 2: o.s.reset(new AdjGSO<Real, int, Exc>); break;
      default: o.s.reset(new AdjSVD<Real, int, Exc>); break;
    }
    return o;
  }
};

static void set_reg(Base& s, World& w, int reg) {
  if (reg == 0) s.min_x(); else { std::vector<int> v = w.subsets[reg]; s.min_x((int)v.size(), v.data()); }
}

static Answer ask(Base& s, const Op& o, const Problem& p) {
  Answer a;
  try {
    switch (o.kind) {
      case 0: { const auto& x = s.unknowns(); for (int j = 1; j <= p.n; j++) a.v.push_back(x(j)); } break;
      case 1: { const auto& r = s.residuals(); for (int i = 1; i <= p.m; i++) a.v.push_back(r(i)); } break;
      case 2: a.v.push_back(s.sum_of_squares()); break;
      case 3: a.v.push_back(sx::rat(s.defect())); break;
      case 4: a.v.push_back(s.q_xx(o.i, o.j)); break;
      case 5: a.v.push_back(s.q_bb(o.i, o.j)); break;
      case 6: a.v.push_back(s.q0_xx(o.i, o.j)); break;
      case 7: a.v.push_back(sx::rat(s.lindep(o.i) ? 1 : 0)); break;
    }
  } catch (const Exc& e) { a.thrown = true; a.v.clear(); }
  return a;
}

static void compare(const Answer& got, const Answer& fresh, const std::string& what) {
  sx::check_true(got.thrown == fresh.thrown, what + " [exception/no exception]", got.thrown ? "history threw, fresh object did not" : "fresh object threw, history did not");
  if (got.thrown || fresh.thrown) return;
  for (size_t k = 0; k < got.v.size() && k < fresh.v.size(); k++) sx::check_eq(got.v[k], fresh.v[k], what + " [component " + std::to_string(k + 1) + "]");
}

static std::vector<Op> op_table(const Problem& p, int nsub, bool reduced) {
  std::vector<Op> ops;
  int n = p.n, m = p.m;
  ops.push_back({"unknowns", 0}); ops.push_back({"residuals", 1});
  if (!reduced) { ops.push_back({"sum_of_squares", 2}); }
  ops.push_back({"defect", 3});
  std::vector<std::pair<int,int>> qp{{1, 1}, {1, n}, {n, std::min(2, n)}};
  if (!reduced && n >= 3) qp.push_back({2, 3});
  for (auto& pr : qp) ops.push_back({"q_xx(" + std::to_string(pr.first) + "," + std::to_string(pr.second) + ")", 4, pr.first, pr.second});
  std::vector<std::pair<int,int>> bp{{1, m}, {2, 2}};
  if (!reduced) bp.push_back({m, 1});
  for (auto& pr : bp) ops.push_back({"q_bb(" + std::to_string(pr.first) + "," + std::to_string(pr.second) + ")", 5, pr.first, pr.second});
  ops.push_back({"q0_xx(" + std::to_string(n) + ",1)", 6, n, 1});
  if (!reduced) ops.push_back({"q0_xx(1,1)", 6, 1, 1});
  ops.push_back({"lindep(1)", 7, 1}); if (!reduced) ops.push_back({"lindep(" + std::to_string(n) + ")", 7, n});
  ops.push_back({"min_x()", 8});
  for (int s = 1; s < nsub; s++) ops.push_back({"min_x(S" + std::to_string(s) + ")", 9, s});
  ops.push_back({"reset(same input)", 10});
  return ops;
}

static void register_svd(const Problem& p) {
#ifndef SX_REPLAY
  sx::svd_clear();
  if (!p.svd_known) return;
  sx::SvdFactors f; f.m = p.m; f.n = p.n;
  QMat At = qla::mul(qla::mul(p.U, p.W), qla::trans(p.V));
  for (int i = 0; i < p.m; i++) for (int j = 0; j < p.n; j++) { f.A.push_back(sx::constant(At(i, j))); f.U.push_back(sx::constant(p.U(i, j))); }
  for (int j = 0; j < p.n; j++) f.W.push_back(sx::constant(p.W(j, j)));
  for (int i = 0; i < p.n; i++) for (int j = 0; j < p.n; j++) f.V.push_back(sx::constant(p.V(i, j)));
  sx::svd_register(f);
#endif
}

// run all sequences that start with ops[first] and have total length <= maxlen
static void case_hist(const Problem& p0, int alg, int first, int maxlen, std::vector<std::vector<int>> subsets, bool reduced_tail, bool warm = false) {
  World w; w.p = p0; w.alg = alg; w.subsets = subsets;
  for (int i = 0; i < w.p.m; i++) w.b.push_back(sx::input("b" + std::to_string(i + 1)));
  register_svd(w.p);
  w.setup();
  std::vector<Op> ops = op_table(w.p, (int)subsets.size(), false);
  std::vector<Op> tail = op_table(w.p, (int)subsets.size(), reduced_tail);
  long nseq = 0;
  // memo of fresh answers per (regularisation, op name)
  std::map<std::string, Answer> fresh_memo;
  auto fresh_answer = [&](int reg, const Op& o) -> const Answer& {
    std::string key = std::to_string(reg) + "|" + o.name;
    auto it = fresh_memo.find(key);
    if (it != fresh_memo.end()) return it->second;
    Obj f = Obj::make(alg); set_reg(*f.s, w, reg); f.give_input(w);
    return fresh_memo[key] = ask(*f.s, o, w.p);
  };
  std::function<void(std::vector<int>&)> rec = [&](std::vector<int>& seq) {
    // execute the sequence on one object
    const Op& last = (seq.size() == 1) ? ops[seq[0]] : tail[seq.back()];
    if (is_query(last)) {
      Obj o = Obj::make(alg); o.give_input(w);
      int reg = 0; std::string desc; Answer got;
      if (warm) {      // the history starts on an object that has answered every query once under another regularisation
        if (subsets.size() >= 2) { reg = (int)subsets.size() - 1; set_reg(*o.s, w, reg); }
        for (const Op& op : ops) if (is_query(op)) ask(*o.s, op, w.p);
        desc = "(object queried before" + std::string(reg ? " under min_x(S" + std::to_string(reg) + ")" : "") + ") ";
      }
      for (size_t k = 0; k < seq.size(); k++) {
        const Op& op = (k == 0) ? ops[seq[k]] : tail[seq[k]];
        desc += (k ? std::string("; ") : std::string("")) + op.name;
        if (op.kind == 8) { o.s->min_x(); reg = 0; }
        else if (op.kind == 9) { set_reg(*o.s, w, op.i); reg = op.i; }
        else if (op.kind == 10) { o.give_input(w); }
        else { Answer a = ask(*o.s, op, w.p); if (k + 1 == seq.size()) got = a; }
      }
      nseq++;
      compare(got, fresh_answer(reg, last), "history {" + desc + "}");
    }
    if ((int)seq.size() < maxlen) for (int t = 0; t < (int)tail.size(); t++) { seq.push_back(t); rec(seq); seq.pop_back(); }
  };
  std::vector<int> seq{first};
  rec(seq);
  sx::note("sequences", std::to_string(nseq) + " starting with " + ops[first].name);
  sx::reached("hist");
}

// ---- the Adj class -------------------------------------------------------------------------------
struct AOp { std::string name; int kind; int i = 0, j = 0; };   // 0 x 1 r 2 rtr 3 defect 4 q_xx 5 q_bb 6 set_algorithm
static Answer ask_adj(Adj& a, const AOp& o, const Problem& p) {
  Answer r;
  try {
    switch (o.kind) {
      case 0: { const Vec<>& x = a.x(); for (int j = 1; j <= p.n; j++) r.v.push_back(x(j)); } break;
      case 1: { const Vec<>& v = a.r(); for (int i = 1; i <= p.m; i++) r.v.push_back(v(i)); } break;
      case 2: r.v.push_back(a.rtr()); break;
      case 3: r.v.push_back(sx::rat(a.defect())); break;
      case 4: r.v.push_back(a.q_xx(o.i, o.j)); break;
      case 5: r.v.push_back(a.q_bb(o.i, o.j)); break;
    }
  } catch (const Exc& e) { r.thrown = true; r.v.clear(); }
  return r;
}
static void case_hist_adj(const Problem& p, int first, int maxlen, int init_alg) {
  std::vector<Real> b; for (int i = 0; i < p.m; i++) b.push_back(sx::input("b" + std::to_string(i + 1)));
  register_svd(p);
  int n = p.n, m = p.m;
  std::vector<AOp> ops{{"x", 0}, {"r", 1}, {"rtr", 2}, {"defect", 3}, {"q_xx(1," + std::to_string(n) + ")", 4, 1, n}, {"q_xx(" + std::to_string(n) + "," + std::to_string(n) + ")", 4, n, n},
                       {"q_bb(1," + std::to_string(m) + ")", 5, 1, m}, {"q_bb(2,2)", 5, 2, 2},
                       {"set_algorithm(envelope)", 6, (int)Adj::envelope}, {"set_algorithm(cholesky)", 6, (int)Adj::cholesky}, {"set_algorithm(gso)", 6, (int)Adj::gso}};
  if (p.svd_known) ops.push_back({"set_algorithm(svd)", 6, (int)Adj::svd});
  std::map<std::string, Answer> memo;
  auto fresh = [&](int alg, const AOp& o) -> const Answer& {
    std::string key = std::to_string(alg) + "|" + o.name;
    auto it = memo.find(key); if (it != memo.end()) return it->second;
    Adj a; a.set(make_input(p, b)); a.set_algorithm((Adj::algorithm)alg);
    return memo[key] = ask_adj(a, o, p);
  };
  long nseq = 0;
  std::function<void(std::vector<int>&)> rec = [&](std::vector<int>& seq) {
    const AOp& last = ops[seq.back()];
    if (last.kind <= 5) {
      Adj a; a.set(make_input(p, b)); int alg = init_alg; a.set_algorithm((Adj::algorithm)init_alg);
      std::string desc = std::string("[starts as ") + alg_name((Adj::algorithm)init_alg) + "] "; Answer got;
      for (size_t k = 0; k < seq.size(); k++) {
        const AOp& op = ops[seq[k]]; desc += (k ? "; " : "") + op.name;
        if (op.kind == 6) { a.set_algorithm((Adj::algorithm)op.i); alg = op.i; }
        else { Answer r = ask_adj(a, op, p); if (k + 1 == seq.size()) got = r; }
      }
      nseq++;
      compare(got, fresh(alg, last), "Adj history {" + desc + "}");
    }
    if ((int)seq.size() < maxlen) for (int t = 0; t < (int)ops.size(); t++) { seq.push_back(t); rec(seq); seq.pop_back(); }
  };
  std::vector<int> seq{first}; rec(seq);
  sx::note("sequences", std::to_string(nseq));
  sx::reached("hist-adj");
}

// ------------------------------------------------------------------------------------------------
static QMat cayley(int n, qla::Rng& rng) {
  QMat S(n, n);
  for (int i = 0; i < n; i++) for (int j = i + 1; j < n; j++) { Q v(rng.range(-2, 2), rng.range(1, 2)); S(i, j) = v; S(j, i) = -v; }
  QMat I = qla::eye(n), A(n, n), B(n, n);
  for (int i = 0; i < n; i++) for (int j = 0; j < n; j++) { A(i, j) = I(i, j) - S(i, j); B(i, j) = I(i, j) + S(i, j); }
  return qla::mul(A, qla::inverse(B));
}

static void gen_cases(const sx::Options& opt, std::vector<sx::Case>& cases) {
  bool thorough = opt.tier == "thorough";
  std::vector<Skel> all = fixed_skeletons();
  std::vector<std::string> pick = thorough ? std::vector<std::string>{"lev4-datum", "lev5-free", "vec2d-free", "two-components", "dep-cols", "band-6x5", "zero-col"}
                                           : std::vector<std::string>{"lev4-datum", "lev5-free", "two-components", "dep-cols"};
  std::vector<Problem> probs;
  int k = 0;
  for (auto& sk : all) {
    if (std::find(pick.begin(), pick.end(), sk.name) == pick.end()) continue;
    qla::Rng rng(900 + k + opt.seed);
    Problem p; p.name = sk.name; p.A = sk.A; p.m = sk.A.r; p.n = sk.A.c; layout(p, (k % 2) ? 3 : 0, rng); finish(p);
    probs.push_back(p); k++;
  }
  {  // one svd-family problem, singular
    qla::Rng rng(31337 + opt.seed);
    int n = 3, m = 4; QMat Um = cayley(m, rng), V = cayley(n, rng), U(m, n), W(n, n);
    for (int a = 0; a < m; a++) for (int c = 0; c < n; c++) U(a, c) = Um(a, c);
    W(0, 0) = 2; W(1, 1) = 0; W(2, 2) = Q(3, 2);
    Problem p; p.name = "svdfam"; p.m = m; p.n = n; p.A = QMat(m, n); layout(p, 0, rng);
    p.A = qla::mul(qla::mul(U, W), qla::trans(V)); p.svd_known = true; p.U = U; p.W = W; p.V = V; finish(p);
    probs.push_back(p);
  }
  int maxlen = thorough ? 4 : 3;
  for (auto& p : probs) {
    qla::Rng rng(5 + opt.seed);
    std::vector<std::vector<int>> subs{{}};     // index 0 = all
    if (p.defect > 0) {
      // two resolving subsets
      for (auto& s : subsets_for(p.A, 12, rng)) {
        Problem q = p; q.has_subset = true; q.subset = s; finish(q);
        if (q.subset_resolves && (int)s.size() < p.n && subs.size() < 3) subs.push_back(s);
      }
    }
    std::shared_ptr<Problem> sp = std::make_shared<Problem>(p);
    int nalg = p.svd_known ? 4 : 3;
    for (int alg = 0; alg < nalg; alg++) {
      static const char* an[] = {"envelope", "cholesky", "gso", "svd"};
      int nops = (int)op_table(p, (int)subs.size(), false).size();
      for (int first = 0; first < nops; first++)
        cases.push_back({"hist/" + p.name + "/" + an[alg] + "/first" + std::to_string(first), std::string("solver object histories: ") + an[alg],
                         [sp, alg, first, maxlen, subs] { sx::note("problem", sp->describe()); case_hist(*sp, alg, first, maxlen, subs, true); }});
      // the same histories on an object that has been queried before (state changes first: the queries were all asked in the warm-up)
      std::vector<Op> optab = op_table(p, (int)subs.size(), false);
      for (int first = 0; first < nops; first++) { if (is_query(optab[first])) continue;
        cases.push_back({"hist/" + p.name + "/" + an[alg] + "/warm-first" + std::to_string(first), std::string("solver object histories: ") + an[alg],
                         [sp, alg, first, maxlen, subs] { sx::note("problem", sp->describe()); case_hist(*sp, alg, first, maxlen, subs, true, true); }}); }
    }
    int nadj = p.svd_known ? 12 : 11;
    for (int init : {(int)Adj::envelope, (int)Adj::gso})
      for (int first = 0; first < nadj; first++)
        cases.push_back({"histadj/" + p.name + "/" + alg_name((Adj::algorithm)init) + "/first" + std::to_string(first), "Adj class histories",
                         [sp, first, maxlen, init] { sx::note("problem", sp->describe()); case_hist_adj(*sp, first, maxlen, init); }});
  }
}
int main(int argc, char** argv) { return sx::run_main(argc, argv, "hist", gen_cases); }
