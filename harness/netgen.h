// Generators of network specifications (linear observation types) and the bridge between a parsed
// LocalNetwork and the exact oracle.
#pragma once
#include "netcommon.h"

namespace N {

// ---- families -----------------------------------------------------------------------------------
inline Cluster hd_cluster(const Spec& s, const std::vector<std::pair<std::string,std::string>>& lines, qla::Rng& rng, int covstyle) {
  // covstyle 0: per-observation stdev (different); 1: diagonal cov-mat; 2: banded cov-mat width 1; 3: width 2
  Cluster c; c.kind = Cluster::HD;
  static const int sd[] = {1, 2, 4, 5, 10};
  for (auto& l : lines) { Obs o; o.t = HDIFF; o.from = l.first; o.to = l.second; o.val = s.pt(l.second)->z - s.pt(l.first)->z; o.stdev = sd[rng.range(0, 4)]; c.obs.push_back(o); }
  int n = (int)c.obs.size();
  c.L = QMat(n, n);
  for (int i = 0; i < n; i++) c.L(i, i) = c.obs[i].stdev;
  if (covstyle >= 1) {
    c.has_cov = true; c.band = covstyle == 1 ? 0 : std::min(n - 1, covstyle - 1);
    for (int i = 0; i < n; i++) for (int j = std::max(0, i - c.band); j < i; j++) c.L(i, j) = Q(rng.range(-2, 2), 2);
  }
  return c;
}

inline Spec levelling(const std::string& name, int npts, const std::vector<std::pair<int,int>>& lines, const std::string& status /* per point: f=fixed a=free c=constrained */,
                      qla::Rng& rng, int covstyle, int nclusters = 1) {
  Spec s; s.name = name;
  for (int i = 0; i < npts; i++) {
    Pt p; p.id = "H" + std::to_string(i + 1); p.has_z = true; p.z = Q(100 + 7 * i + rng.range(0, 5), 1) + Q(rng.range(0, 7), 8);
    p.az = p.z;
    char st = status[i]; if (st == 'f') p.fix = "z"; else if (st == 'a') p.adj = "z"; else p.adj = "Z";
    s.pts.push_back(p);
  }
  std::vector<std::pair<std::string,std::string>> all; for (auto& l : lines) all.push_back({"H" + std::to_string(l.first), "H" + std::to_string(l.second)});
  size_t per = (all.size() + nclusters - 1) / nclusters;
  for (size_t b = 0; b < all.size(); b += per) {
    std::vector<std::pair<std::string,std::string>> part(all.begin() + b, all.begin() + std::min(all.size(), b + per));
    s.cl.push_back(hd_cluster(s, part, rng, covstyle));
  }
  return s;
}

// 3D vector network
inline Spec vectors(const std::string& name, int npts, const std::vector<std::pair<int,int>>& vecs, const std::string& status, qla::Rng& rng, int covstyle) {
  Spec s; s.name = name;
  for (int i = 0; i < npts; i++) {
    Pt p; p.id = "V" + std::to_string(i + 1); p.has_xy = p.has_z = true;
    p.x = Q(1000 + 100 * ((i * 7) % 5) + rng.range(0, 50), 1) + Q(rng.range(0, 3), 4); p.y = Q(2000 + 100 * ((i * 3) % 4) + rng.range(0, 50), 1); p.z = Q(300 + 10 * i, 1) + Q(rng.range(0, 1), 2);
    p.ax = p.x; p.ay = p.y; p.az = p.z;
    char st = status[i]; if (st == 'f') p.fix = "xyz"; else if (st == 'a') p.adj = "xyz"; else p.adj = "XYZ";
    s.pts.push_back(p);
  }
  Cluster c; c.kind = Cluster::VEC;
  for (auto& v : vecs) {
    const Pt* a = s.pt("V" + std::to_string(v.first)); const Pt* b = s.pt("V" + std::to_string(v.second));
    Obs o; o.from = a->id; o.to = b->id; o.stdev = 1;
    o.t = XDIFF; o.val = b->x - a->x; c.obs.push_back(o);
    o.t = YDIFF; o.val = b->y - a->y; c.obs.push_back(o);
    o.t = ZDIFF; o.val = b->z - a->z; c.obs.push_back(o);
  }
  int n = (int)c.obs.size(); c.L = QMat(n, n); c.has_cov = true;
  static const int sd[] = {1, 2, 3, 5};
  for (int i = 0; i < n; i++) c.L(i, i) = sd[rng.range(0, 3)];
  c.band = covstyle == 0 ? 0 : std::min(n - 1, covstyle == 1 ? 2 : 5);
  // correlations only inside each vector triple (width 2) or across neighbours (width 5)
  for (int i = 0; i < n; i++) for (int j = std::max(0, i - c.band); j < i; j++) if (covstyle == 2 || i / 3 == j / 3) c.L(i, j) = Q(rng.range(-1, 1), 2);
  s.cl.push_back(c);
  return s;
}

// observed coordinates of some points appended to a spec (cluster <coordinates>)
inline void add_coordinates(Spec& s, const std::vector<std::string>& ids, bool xy, bool z, qla::Rng& rng, bool correlated) {
  Cluster c; c.kind = Cluster::COORD;
  for (auto& id : ids) { const Pt* p = s.pt(id); Obs o; o.to = id; o.from = "";
    if (xy) { o.t = CX; o.val = p->x; c.obs.push_back(o); o.t = CY; o.val = p->y; c.obs.push_back(o); }
    if (z) { o.t = CZ; o.val = p->z; c.obs.push_back(o); } }
  int n = (int)c.obs.size(); c.L = QMat(n, n); c.has_cov = true; c.band = correlated ? std::min(n - 1, 1) : 0;
  for (int i = 0; i < n; i++) { c.L(i, i) = rng.range(1, 3); if (correlated && i > 0) c.L(i, i - 1) = Q(rng.range(-1, 1), 2); }
  s.cl.push_back(c);
}

// a <coordinates> cluster with a different set of observed components per point (mode 1 xy, 2 z, 3 xyz)
inline void add_coordinates_mixed(Spec& s, const std::vector<std::pair<std::string,int>>& pts, qla::Rng& rng, bool correlated) {
  Cluster c; c.kind = Cluster::COORD;
  for (auto& pr : pts) { const Pt* p = s.pt(pr.first); Obs o; o.to = pr.first; o.from = "";
    if (pr.second & 1) { o.t = CX; o.val = p->x; c.obs.push_back(o); o.t = CY; o.val = p->y; c.obs.push_back(o); }
    if (pr.second & 2) { o.t = CZ; o.val = p->z; c.obs.push_back(o); } }
  int n = (int)c.obs.size(); c.L = QMat(n, n); c.has_cov = true; c.band = correlated ? std::min(n - 1, 2) : 0;
  for (int i = 0; i < n; i++) { c.L(i, i) = rng.range(1, 3); if (correlated) for (int j = std::max(0, i - 2); j < i; j++) c.L(i, j) = Q(rng.range(-1, 1), 2); }
  s.cl.push_back(c);
}

// ---- bridge: observation objects of the parsed network -> oracle rows ------------------------------
struct Bridge {
  Net* net; const Spec* spec;
  std::vector<Observation*> obs;          // all observations in input order
  std::vector<Real> val;                  // value given to each observation
  // status as the harness understands it from the spec
  bool is_unknown(const std::string& id, char t) const {
    const Pt* p = spec->pt(id); if (!p) return false;
    std::string a = p->adj, f = p->fix;
    auto has = [](const std::string& s, char c) { for (char ch : s) if (tolower(ch) == c) return true; return false; };
    char c = (char)tolower(t);
    if (c == 'x' || c == 'y') { if (has(f, 'x') && has(f, 'y')) { if (has(a, 'x')) return true; return false; } return has(a, 'x') || has(a, 'y'); }
    if (has(f, 'z')) return has(a, 'z');
    return has(a, 'z');
  }
  bool is_constrained(const std::string& id, char t) const {
    const Pt* p = spec->pt(id); if (!p) return false;
    for (char ch : p->adj) { if ((t == 'X' || t == 'Y') && (ch == 'X' || ch == 'Y')) return true; if (t == 'Z' && ch == 'Z') return true; }
    return false;
  }
};

inline OType otype(Observation* o) {
  if (dynamic_cast<H_Diff*>(o)) return HDIFF; if (dynamic_cast<Xdiff*>(o)) return XDIFF; if (dynamic_cast<Ydiff*>(o)) return YDIFF; if (dynamic_cast<Zdiff*>(o)) return ZDIFF;
  if (dynamic_cast<X*>(o)) return CX; if (dynamic_cast<Y*>(o)) return CY; if (dynamic_cast<Z*>(o)) return CZ;
  if (dynamic_cast<Distance*>(o)) return DIST; if (dynamic_cast<Direction*>(o)) return DIR; return ANGLE;
}

// Build the oracle for a network made of linear observation types.  `active` = observations taking part
// (in input order), approx = approximate coordinates used for the linearisation (symbolic allowed).
struct Approx { std::map<std::string, Real> x, y, z; };
inline void oracle_linear(Oracle& o, const Spec& spec, const std::vector<Observation*>& allobs, const std::vector<Real>& val, const std::vector<bool>& active,
                          const Approx& ap, Real ysign) {
  // unknown list: every non-fixed coordinate of points touched by an active observation
  o.unk.clear();
  auto unknown = [&](const std::string& id, char t) -> bool {
    const Pt* p = spec.pt(id); if (!p) return false;
    auto has = [](const std::string& s, char c) { for (char ch : s) if (tolower(ch) == c) return true; return false; };
    char c = (char)tolower(t); if (c == 'y') c = 'x';
    return has(p->adj, c) && !(has(p->fix, c) && !has(p->adj, c));
  };
  std::vector<int> rows; for (size_t k = 0; k < allobs.size(); k++) if (active[k]) rows.push_back((int)k);
  auto touch = [&](const std::string& id, char t) { if (unknown(id, t) && o.col(id, t) < 0) o.unk.push_back({id, t}); };
  for (int k : rows) {
    Observation* ob = allobs[k]; OType t = otype(ob);
    std::string f = ob->from().str(), to = ob->to().str();
    switch (t) { case HDIFF: case ZDIFF: touch(f, 'Z'); touch(to, 'Z'); break; case XDIFF: touch(f, 'X'); touch(to, 'X'); break; case YDIFF: touch(f, 'Y'); touch(to, 'Y'); break;
      case CX: touch(f, 'X'); break; case CY: touch(f, 'Y'); break; case CZ: touch(f, 'Z'); break; default: break; }
  }
  int m = (int)rows.size(), n = (int)o.unk.size();
  o.A = QMat(m, n); o.l.assign(m, sx::rat(0));
  auto coord = [&](const std::string& id, char t) -> Real { return t == 'X' ? ap.x.at(id) : t == 'Y' ? ap.y.at(id) : ap.z.at(id); };
  for (int r = 0; r < m; r++) {
    int k = rows[r]; Observation* ob = allobs[k]; OType t = otype(ob);
    std::string f = ob->from().str(), to = ob->to().str();
    char ct = (t == HDIFF || t == ZDIFF || t == CZ) ? 'Z' : (t == XDIFF || t == CX) ? 'X' : 'Y';
    Real sgn = (ct == 'Y') ? ysign : sx::rat(1);
    if (t == CX || t == CY || t == CZ) {
      int c = o.col(f, ct); if (c >= 0) o.A(r, c) = 1;
      o.l[r] = (val[k] * sgn - coord(f, ct)) * sx::rat(1000);
    } else {
      int c1 = o.col(f, ct), c2 = o.col(to, ct);
      if (c1 >= 0) o.A(r, c1) = -1; if (c2 >= 0) o.A(r, c2) = 1;
      o.l[r] = (val[k] * sgn - (coord(to, ct) - coord(f, ct))) * sx::rat(1000);
    }
  }
}

}  // namespace N
