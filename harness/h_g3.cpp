// Harness "g3" (C19): gama-g3's model on generated ECEF networks of GNSS vectors whose points lie on the equator
// at longitudes 0, 90, 180, 270 degrees (there the north-east-up rotation has entries 0/+-1 through the atan2 /
// sin / cos contract, so the whole linearisation is exact), with symbolic observation errors.
#define private public
#define protected public
#include <gnu_gama/g3/g3_model.h>
#include <gnu_gama/g3/g3_point.h>
#include <gnu_gama/g3/g3_observation.h>
#undef private
#undef protected
#include <gnu_gama/xml/dataparser.h>
#include <gnu_gama/adj/adj.h>
#include "qla.h"
#include "sx.h"
#include <sstream>
#include <iostream>
#include <memory>
#include <map>
#include <algorithm>

using sx::Real; using qla::Q; using qla::QMat;
using namespace GNU_gama;

struct GPt { std::string id; Q x, y, z; char status; /* f fixed, a free, c constrained */ int lon; /* 0,1,2,3 quarter turns */ };
struct GVec { int from, to; QMat L; /* 3x3 lower factor of the covariance */ };
struct GSpec { std::string name; std::vector<GPt> pts; std::vector<GVec> vecs; std::vector<int> order; };

static const long A_WGS84 = 6378137;
static GPt eq_point(const std::string& id, int lon, long h, char status) {
  GPt p; p.id = id; p.status = status; p.lon = lon; Q r = Q(A_WGS84 + h);
  p.x = lon == 0 ? r : lon == 2 ? Q(-r) : Q(0); p.y = lon == 1 ? r : lon == 3 ? Q(-r) : Q(0); p.z = 0; return p;
}
static std::string qs(const Q& q) { mpz_class n = q.get_num(), d = q.get_den(); if (d == 1) return n.get_str(); std::ostringstream o; o.precision(17); o << q.get_d(); return o.str(); }

static std::string g3_xml(const GSpec& s) {
  std::ostringstream o;
  o << "<?xml version=\"1.0\" ?>\n<gnu-gama-data xmlns=\"http://www.gnu.org/software/gama/gnu-gama-data\">\n<g3-model>\n"
    << "<constants><apriori-standard-deviation>1</apriori-standard-deviation><confidence-level>0.95</confidence-level><ellipsoid><id>wgs84</id></ellipsoid></constants>\n";
  for (auto& p : s.pts) {
    const char* tag = p.status == 'f' ? "fixed" : p.status == 'a' ? "free" : "constr";
    o << "<" << tag << "> <n/> <e/> <u/> </" << tag << ">\n";
    o << "<point> <id>" << p.id << "</id> <x>" << qs(p.x) << "</x> <y>" << qs(p.y) << "</y> <z>" << qs(p.z) << "</z> </point>\n";
  }
  for (int k : s.order) { const GVec& v = s.vecs[k]; const GPt& a = s.pts[v.from]; const GPt& b = s.pts[v.to];
    QMat C = qla::mul(v.L, qla::trans(v.L));
    o << "<obs>\n <vector> <from>" << a.id << "</from> <to>" << b.id << "</to> <dx>" << qs(b.x - a.x) << "</dx> <dy>" << qs(b.y - a.y) << "</dy> <dz>" << qs(b.z - a.z) << "</dz> </vector>\n"
      << " <cov-mat> <dim>3</dim> <band>2</band>\n";
    for (int i = 0; i < 3; i++) { for (int j = i; j < 3; j++) o << " <flt>" << qs(C(i, j)) << "</flt>"; o << "\n"; }
    o << " </cov-mat>\n</obs>\n"; }
  o << "</g3-model>\n</gnu-gama-data>\n";
  return o.str();
}

static g3::Model* parse_model(const std::string& text, std::string& err) {
  std::list<DataObject::Base*> objects; DataParser parser(objects);
  try { parser.xml_parse(text.c_str(), (int)text.size(), 1); }
  catch (const Exception::parser& p) { err = p.str + " line " + std::to_string(p.line); return nullptr; }
  g3::Model* model = nullptr;
  for (auto* o : objects) { if (auto* m = dynamic_cast<DataObject::g3_model*>(o)) model = m->model; delete o; }
  if (!model) err = "no g3-model in the input";
  return model;
}

struct GRun {
  std::unique_ptr<g3::Model> model; std::vector<g3::Vector*> vecs;   // in input order
  std::map<std::string, std::vector<Real>> xyz;   // adjusted X,Y,Z per point
  std::vector<Real> x, r; Real rtr; int redundancy = 0, defect = 0, rows = 0, cols = 0; bool ok = false; std::string why;
  QMat A; std::vector<Real> rhs;
};

static bool build_g3(GRun& g, const GSpec& s, const std::vector<Real>& err_by_vec /* 3 per vector, indexed by vecs[] */, Adj::algorithm alg) {
  std::string e; g.model.reset(parse_model(g3_xml(s), e));
  if (!g.model) { sx::fail("generated g3 input rejected", e); return false; }
  for (auto i = g.model->obsdata.begin(), end = g.model->obsdata.end(); i != end; ++i) if (auto* v = dynamic_cast<g3::Vector*>(*i)) g.vecs.push_back(v);
  if (g.vecs.size() != s.order.size()) { sx::fail("number of vectors read", std::to_string(g.vecs.size())); return false; }
  for (size_t k = 0; k < g.vecs.size(); k++) { int vi = s.order[k]; g3::Vector* v = g.vecs[k]; v->set_dxyz(v->dx() + err_by_vec[3 * vi], v->dy() + err_by_vec[3 * vi + 1], v->dz() + err_by_vec[3 * vi + 2]); }
  try {
    g.model->set_algorithm(alg);
    g.model->update_linearization();
    g.rows = g.model->dm_rows; g.cols = g.model->dm_cols;
    // the design matrix and right-hand side the model built (constants here: rotation entries are 0/+-1)
    g.A = QMat(g.rows, g.cols); bool rational = true;
    for (int r = 1; r <= g.rows; r++) { Real* b = g.model->A->begin(r); Real* en = g.model->A->end(r); int* c = g.model->A->ibegin(r);
      for (; b != en; ++b, ++c) { mpq_class q; if (!sx::is_rational(*b, &q)) { rational = false; q = mpq_class(sx::numeric(*b)); } g.A(r - 1, *c - 1) += q; } }
    sx::check_true(rational || !sx::symbolic_mode(), s.name + " design matrix entries are exact rationals at the special geometry", "");
    for (int r = 1; r <= g.rows; r++) g.rhs.push_back(g.model->rhs(r));
    g.model->update_adjustment();
    const Vec<>& x = g.model->adj->x(); for (int i = 1; i <= g.cols; i++) g.x.push_back(x(i));
    const Vec<>& res = g.model->adj->r(); for (int i = 1; i <= g.rows; i++) g.r.push_back(res(i));
    g.rtr = g.model->adj->rtr(); g.defect = g.model->adj->defect(); g.redundancy = g.model->redundancy;
    for (auto it = g.model->points->begin(); it != g.model->points->end(); ++it) { g3::Point* p = *it;
      // the first statements of Point::write_xml: the adjusted n,e,u become corrections of X,Y,Z (the rest of write_xml converts to
      // ellipsoidal coordinates by iteration and is outside the claim)
      Real n = p->N(), e = p->E(), u = p->U();
      p->X_.set_correction(p->x_transform(n, e, u)); p->Y_.set_correction(p->y_transform(n, e, u)); p->Z_.set_correction(p->z_transform(n, e, u));
      g.xyz[p->name] = {p->X(), p->Y(), p->Z()}; }
    g.ok = true;
  } catch (const Exception::matvec& ex) { g.why = std::string("matvec: ") + ex.what(); }
    catch (const Exception::string& ex) { g.why = ex.str; }
  return true;
}

static void case_g3(const GSpec& s0) {
  GSpec s = s0;
  std::vector<Real> errs; for (size_t k = 0; k < s.vecs.size() * 3; k++) { Real e = sx::input("e" + std::to_string(k + 1)); sx::assume_range(e, Q(-1, 100), Q(1, 100)); errs.push_back(e); }
  Adj::algorithm algs[] = {Adj::envelope, Adj::cholesky, Adj::gso};
  std::vector<std::unique_ptr<GRun>> runs;
  for (auto alg : algs) { runs.emplace_back(new GRun); if (!build_g3(*runs.back(), s, errs, alg)) return; }
  GRun& g = *runs[0];
  sx::check_true(g.ok, s.name + " adjusted", g.why); if (!g.ok) return;
  // oracle on the model's own project equations: weights from the specification, exact null space
  int m = g.rows, n = g.cols;
  sx::check_true(m == 3 * (int)s.vecs.size(), s.name + " three equations per vector", std::to_string(m));
  int expect_n = 0; for (auto& p : s.pts) if (p.status != 'f') expect_n += 3;
  sx::check_true(n == expect_n, s.name + " three unknowns per non-fixed point", std::to_string(n));
  QMat P(m, m); for (size_t k = 0; k < s.order.size(); k++) { const GVec& v = s.vecs[s.order[k]]; QMat Ci = qla::inverse(qla::mul(v.L, qla::trans(v.L))); for (int i = 0; i < 3; i++) for (int j = 0; j < 3; j++) P(3 * k + i, 3 * k + j) = Ci(i, j); }
  int defect = qla::nullspace(g.A).c;
  sx::check_true(g.defect == defect, s.name + " defect equals the nullity of the design matrix", std::to_string(g.defect) + " vs " + std::to_string(defect));
  sx::check_true(g.redundancy == m - n + defect, s.name + " redundancy = equations - unknowns + defect", std::to_string(g.redundancy));
  // design matrix: a vector row carries -R_from and +R_to (rotation NEU -> XYZ has 0/+-1 entries at these points): every row has entries only 0/+-1
  bool unit = true; for (auto& v : g.A.a) if (v != 0 && v != 1 && v != -1) unit = false; sx::check_true(unit, s.name + " design matrix entries are 0/+-1", qla::show(g.A));
  // right-hand side = (observed - computed) * 1000 = error * 1000
  for (size_t k = 0; k < s.order.size(); k++) for (int c = 0; c < 3; c++) sx::check_eq(g.rhs[3 * k + c], errs[3 * s.order[k] + c] * sx::rat(1000), s.name + " right-hand side of vector " + std::to_string(k + 1) + " component " + std::to_string(c + 1));
  // optimality and residuals
  for (int i = 0; i < m; i++) { Real ax = sx::rat(0); for (int j = 0; j < n; j++) if (g.A(i, j) != 0) ax = ax + sx::constant(g.A(i, j)) * g.x[j]; sx::check_eq(g.r[i], ax - g.rhs[i], s.name + " residual = Ax - b, row " + std::to_string(i + 1)); }
  std::vector<Real> Pr(m, sx::rat(0)); for (int i = 0; i < m; i++) for (int k = 0; k < m; k++) if (P(i, k) != 0) Pr[i] = Pr[i] + sx::constant(P(i, k)) * g.r[k];
  for (int j = 0; j < n; j++) { Real t = sx::rat(0); for (int i = 0; i < m; i++) if (g.A(i, j) != 0) t = t + sx::constant(g.A(i, j)) * Pr[i]; sx::check_zero(t, s.name + " normal equation " + std::to_string(j + 1)); }
  Real vpv = sx::rat(0); for (int i = 0; i < m; i++) vpv = vpv + g.r[i] * Pr[i]; sx::check_eq(g.rtr, vpv, s.name + " sum of squares");
  // consistent part: the adjusted coordinates differ from the generating ones by terms that vanish with the errors (homogeneous linear in e)
  for (auto& p : s.pts) { auto& c = g.xyz[p.id]; Q gen[3] = {p.x, p.y, p.z};
    if (p.status == 'f') for (int k = 0; k < 3; k++) sx::check_eq(c[k], sx::constant(gen[k]), s.name + " fixed point " + p.id + " unchanged"); }
  // adjusted vectors: observed + residual = difference of adjusted coordinates
  for (size_t k = 0; k < s.order.size(); k++) { const GVec& v = s.vecs[s.order[k]]; const GPt& a = s.pts[v.from]; const GPt& b = s.pts[v.to];
    Q gen[3] = {b.x - a.x, b.y - a.y, b.z - a.z};
    for (int c = 0; c < 3; c++) sx::check_eq(g.xyz[b.id][c] - g.xyz[a.id][c], sx::constant(gen[c]) + errs[3 * s.order[k] + c] + g.r[3 * k + c] / sx::rat(1000), s.name + " adjusted vector " + std::to_string(k + 1) + " = difference of adjusted coordinates, component " + std::to_string(c + 1)); }
  // all algorithms agree
  for (size_t a = 1; a < runs.size(); a++) { GRun& h = *runs[a]; std::string t = s.name + " algorithm " + std::to_string(a) + " vs envelope";
    sx::check_true(h.ok, t + " adjusted", h.why); if (!h.ok) continue;
    sx::check_true(h.defect == g.defect && h.redundancy == g.redundancy, t + " defect and redundancy", "");
    for (auto& kv : g.xyz) for (int c = 0; c < 3; c++) sx::check_eq(h.xyz[kv.first][c], kv.second[c], t + " adjusted coordinate of " + kv.first);
    for (int i = 0; i < m; i++) sx::check_eq(h.r[i], g.r[i], t + " residual " + std::to_string(i + 1)); sx::check_eq(h.rtr, g.rtr, t + " sum of squares"); }
  // any order of the input records
  { GSpec s2 = s; std::reverse(s2.order.begin(), s2.order.end()); if (s2.order.size() > 2) std::swap(s2.order[0], s2.order[1]);
    GRun h; if (!build_g3(h, s2, errs, Adj::envelope)) return; std::string t = s.name + " permuted records";
    sx::check_true(h.ok, t + " adjusted", h.why);
    if (h.ok) { for (auto& kv : g.xyz) for (int c = 0; c < 3; c++) sx::check_eq(h.xyz[kv.first][c], kv.second[c], t + " adjusted coordinate of " + kv.first); sx::check_eq(h.rtr, g.rtr, t + " sum of squares"); sx::check_true(h.redundancy == g.redundancy, t + " redundancy", ""); } }
  // the project-equation dump, read by the real parser and adjusted by the general adjustment class, gives the same solution
  { std::ostringstream dump; dump.precision(16); dump << DataObject::Base::xml_begin(); g.model->write_xml_adjustment_input_data(dump); dump << DataObject::Base::xml_end();
    std::list<DataObject::Base*> objects; DataParser parser(objects); std::string text = dump.str(); bool parsed = true;
    try { parser.xml_parse(text.c_str(), (int)text.size(), 1); } catch (const Exception::parser& p) { parsed = false; sx::fail(s.name + " project-equation dump rejected by the parser", p.str + " line " + std::to_string(p.line)); }
    if (parsed) { AdjInputData* in = nullptr; for (auto* o : objects) { if (auto* d = dynamic_cast<DataObject::AdjInput*>(o)) { in = d->data; d->data = nullptr; } delete o; }
      sx::check_true(in != nullptr, s.name + " dump contains adj-input-data", "");
      if (in) { Adj adj; adj.set(in); adj.set_algorithm(Adj::cholesky); const Vec<>& x = adj.x();
        sx::check_true(x.dim() == n, s.name + " dump: number of unknowns", ""); if (x.dim() == n) for (int j = 1; j <= n; j++) sx::check_eq(x(j), g.x[j - 1], s.name + " dump adjusted by Adj: unknown " + std::to_string(j)); } } }
  sx::reached("g3");
}
// error-free observations reproduce the generating coordinates exactly (concrete run, natively decided)
static void case_g3_consistent(const GSpec& s) {
  std::vector<Real> errs(s.vecs.size() * 3, sx::rat(0));
  GRun g; if (!build_g3(g, s, errs, Adj::envelope)) return; sx::check_true(g.ok, s.name + " adjusted", g.why); if (!g.ok) return;
  for (auto& p : s.pts) { Q gen[3] = {p.x, p.y, p.z}; for (int c = 0; c < 3; c++) sx::check_eq(g.xyz[p.id][c], sx::constant(gen[c]), s.name + " consistent observations reproduce point " + p.id); }
  for (auto& r : g.r) sx::check_zero(r, s.name + " zero residuals");
  sx::reached("g3-consistent");
}

static void gen_cases(const sx::Options& opt, std::vector<sx::Case>& cases) {
  bool th = opt.tier == "thorough";
  qla::Rng rng(1900 + opt.seed);
  auto lfac = [&]() { QMat L(3, 3); for (int i = 0; i < 3; i++) { L(i, i) = rng.range(1, 3); for (int j = 0; j < i; j++) L(i, j) = Q(rng.range(-1, 1), 2); } return L; };
  std::vector<GSpec> specs;
  const char* statuses[] = {"faaa", "fafa", "cccc", "acca", "ffaa"};
  for (int k = 0; k < (th ? 5 : 3); k++) {
    GSpec s; s.name = std::string("equator4-") + statuses[k];
    for (int i = 0; i < 4; i++) s.pts.push_back(eq_point("P" + std::to_string(i + 1), i, 10 + 7 * i + rng.range(0, 5), statuses[k][i]));
    int ed[6][2] = {{0,1},{1,2},{2,3},{3,0},{0,2},{1,3}};
    for (int e = 0; e < (k % 2 ? 5 : 6); e++) { GVec v; v.from = ed[e][0]; v.to = ed[e][1]; v.L = lfac(); s.vecs.push_back(v); }
    for (size_t i = 0; i < s.vecs.size(); i++) s.order.push_back((int)i);
    specs.push_back(s);
  }
  for (auto& s : specs) { auto sp = std::make_shared<GSpec>(s);
    cases.push_back({"g3/" + s.name, "gama-g3 model", [sp] { case_g3(*sp); }});
    cases.push_back({"g3-consistent/" + s.name, "gama-g3 model, error-free", [sp] { case_g3_consistent(*sp); }}); }
}
int main(int argc, char** argv) { return sx::run_main(argc, argv, "g3", gen_cases); }
