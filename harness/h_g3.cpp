// Harness "g3" (C19): gama-g3's model on generated ECEF networks whose points lie on the equator at longitudes 0, 90, 180,
// 270 degrees (there the north-east-up rotation has entries 0/+-1 through the atan2 / sin / cos contract, and the ellipsoidal
// height is X or Y minus the semi-major axis, so the whole linearisation is exact), with GNSS vectors, observed coordinates,
// space distances, height differences and heights, and symbolic observation errors.
#define private public
#define protected public
#include <gnu_gama/g3/g3_model.h>
#include <gnu_gama/g3/g3_point.h>
#include <gnu_gama/g3/g3_observation.h>
#undef private
#undef protected
#include <gnu_gama/xml/dataparser.h>
#include <gnu_gama/adj/adj.h>
#include "qla.h"
#include "sx.h"
#include <sstream>
#include <iostream>
#include <memory>
#include <map>
#include <algorithm>

using sx::Real; using qla::Q; using qla::QMat;
using namespace GNU_gama;

struct GPt { std::string id; Q x, y, z; char status; /* f fixed, a free, c constrained */ int lon; /* 0,1,2,3 quarter turns */ Q h; /* ellipsoidal height */ Q geoid; Q mh() const { return h - geoid; } /* the height gama-g3 models: ellipsoidal minus geoid */ };
// kind: 0 vector, 1 observed xyz, 2 distance, 3 height difference, 4 height
struct GObs { int kind; int from, to; QMat L; /* 3x3 lower factor of the covariance (vector, xyz) */ Q stdev; int dim() const { return kind <= 1 ? 3 : 1; } };
struct GSpec { std::string name; std::vector<GPt> pts; std::vector<GObs> obs; std::vector<int> order; };

static const long A_WGS84 = 6378137;
static GPt eq_point(const std::string& id, int lon, long h, char status) {
  GPt p; p.id = id; p.status = status; p.lon = lon; p.h = Q(h); p.geoid = Q(lon + 1, 2); Q r = Q(A_WGS84 + h);
  p.x = lon == 0 ? r : lon == 2 ? Q(-r) : Q(0); p.y = lon == 1 ? r : lon == 3 ? Q(-r) : Q(0); p.z = 0; return p;
}
static std::string qs(const Q& q) { mpz_class n = q.get_num(), d = q.get_den(); if (d == 1) return n.get_str(); std::ostringstream o; o.precision(17); o << q.get_d(); return o.str(); }
static Real true_dist(const GPt& a, const GPt& b) { Q d2 = (b.x - a.x) * (b.x - a.x) + (b.y - a.y) * (b.y - a.y) + (b.z - a.z) * (b.z - a.z); return sqrt(sx::constant(d2)); }

static std::string g3_xml(const GSpec& s) {
  std::ostringstream o; o.precision(17);
  o << "<?xml version=\"1.0\" ?>\n<gnu-gama-data xmlns=\"http://www.gnu.org/software/gama/gnu-gama-data\">\n<g3-model>\n"
    << "<constants><apriori-standard-deviation>1</apriori-standard-deviation><confidence-level>0.95</confidence-level><ellipsoid><id>wgs84</id></ellipsoid></constants>\n";
  for (auto& p : s.pts) {
    const char* tag = p.status == 'f' ? "fixed" : p.status == 'a' ? "free" : "constr";
    o << "<" << tag << "> <n/> <e/> <u/> </" << tag << ">\n";
    o << "<point> <id>" << p.id << "</id> <x>" << qs(p.x) << "</x> <y>" << qs(p.y) << "</y> <z>" << qs(p.z) << "</z> <geoid>" << qs(p.geoid) << "</geoid> </point>\n";
  }
  for (int k : s.order) { const GObs& v = s.obs[k]; const GPt& a = s.pts[v.from]; const GPt& b = s.pts[v.to];
    o << "<obs>\n";
    if (v.kind == 0) o << " <vector> <from>" << a.id << "</from> <to>" << b.id << "</to> <dx>" << qs(b.x - a.x) << "</dx> <dy>" << qs(b.y - a.y) << "</dy> <dz>" << qs(b.z - a.z) << "</dz> </vector>\n";
    if (v.kind == 1) o << " <xyz> <id>" << a.id << "</id> <x>" << qs(a.x) << "</x> <y>" << qs(a.y) << "</y> <z>" << qs(a.z) << "</z> </xyz>\n";
    if (v.kind <= 1) { QMat C = qla::mul(v.L, qla::trans(v.L)); o << " <cov-mat> <dim>3</dim> <band>2</band>\n"; for (int i = 0; i < 3; i++) { for (int j = i; j < 3; j++) o << " <flt>" << qs(C(i, j)) << "</flt>"; o << "\n"; } o << " </cov-mat>\n"; }
    if (v.kind == 2) { std::ostringstream d; d.precision(17); d << sx::numeric(true_dist(a, b)); o << " <distance> <from>" << a.id << "</from> <to>" << b.id << "</to> <val>" << d.str() << "</val> <stdev>" << qs(v.stdev) << "</stdev> </distance>\n"; }
    if (v.kind == 3) o << " <hdiff> <from>" << a.id << "</from> <to>" << b.id << "</to> <val>" << qs(b.mh() - a.mh()) << "</val> <stdev>" << qs(v.stdev) << "</stdev> </hdiff>\n";
    if (v.kind == 4) o << " <height> <id>" << a.id << "</id> <val>" << qs(a.mh()) << "</val> <stdev>" << qs(v.stdev) << "</stdev> </height>\n";
    o << "</obs>\n"; }
  o << "</g3-model>\n</gnu-gama-data>\n";
  return o.str();
}

static g3::Model* parse_model(const std::string& text, std::string& err) {
  std::list<DataObject::Base*> objects; DataParser parser(objects);
  try { parser.xml_parse(text.c_str(), (int)text.size(), 1); }
  catch (const Exception::parser& p) { err = p.str + " line " + std::to_string(p.line); return nullptr; }
  g3::Model* model = nullptr;
  for (auto* o : objects) { if (auto* m = dynamic_cast<DataObject::g3_model*>(o)) model = m->model; delete o; }
  if (!model) err = "no g3-model in the input";
  return model;
}

struct GRun {
  std::unique_ptr<g3::Model> model; std::vector<g3::Observation*> obs;   // in input order
  std::map<std::string, std::vector<Real>> xyz;   // adjusted X,Y,Z per point
  std::vector<Real> x, r; Real rtr; int redundancy = 0, defect = 0, rows = 0, cols = 0; bool ok = false; std::string why;
  std::vector<std::vector<Real>> A; std::vector<Real> rhs; std::map<std::string, std::vector<int>> idx;   // N,E,U index per point (0 = not an unknown)
};

// err: dim() symbols per observation, indexed by the position in spec.obs
static bool build_g3(GRun& g, const GSpec& s, const std::vector<std::vector<Real>>& err, Adj::algorithm alg) {
  std::string e; g.model.reset(parse_model(g3_xml(s), e));
  if (!g.model) { sx::fail("generated g3 input rejected", e); return false; }
  for (auto i = g.model->obsdata.begin(), end = g.model->obsdata.end(); i != end; ++i) g.obs.push_back(*i);
  if (g.obs.size() != s.order.size()) { sx::fail("number of observations read", std::to_string(g.obs.size())); return false; }
  for (size_t k = 0; k < g.obs.size(); k++) { int oi = s.order[k]; const GObs& v = s.obs[oi]; const GPt& a = s.pts[v.from]; const GPt& b = s.pts[v.to]; const std::vector<Real>& ev = err[oi];
    bool type_ok = true;
    if (v.kind == 0) { auto* o = dynamic_cast<g3::Vector*>(g.obs[k]); if (o) o->set_dxyz(sx::constant(b.x - a.x) + ev[0], sx::constant(b.y - a.y) + ev[1], sx::constant(b.z - a.z) + ev[2]); else type_ok = false; }
    if (v.kind == 1) { auto* o = dynamic_cast<g3::XYZ*>(g.obs[k]); if (o) o->set_xyz(sx::constant(a.x) + ev[0], sx::constant(a.y) + ev[1], sx::constant(a.z) + ev[2]); else type_ok = false; }
    if (v.kind == 2) { auto* o = dynamic_cast<g3::Distance*>(g.obs[k]); if (o) o->set(true_dist(a, b) + ev[0]); else type_ok = false; }
    if (v.kind == 3) { auto* o = dynamic_cast<g3::HeightDiff*>(g.obs[k]); if (o) o->set(sx::constant(b.mh() - a.mh()) + ev[0]); else type_ok = false; }
    if (v.kind == 4) { auto* o = dynamic_cast<g3::Height*>(g.obs[k]); if (o) o->set(sx::constant(a.mh()) + ev[0]); else type_ok = false; }
    if (!type_ok) { sx::fail("observation read with another type", std::to_string(k + 1)); return false; } }
  try {
    g.model->set_algorithm(alg);
    g.model->update_linearization();
    g.rows = g.model->dm_rows; g.cols = g.model->dm_cols;
    g.A.assign(g.rows, std::vector<Real>(g.cols, sx::rat(0)));
    for (int r = 1; r <= g.rows; r++) { Real* b = g.model->A->begin(r); Real* en = g.model->A->end(r); int* c = g.model->A->ibegin(r); for (; b != en; ++b, ++c) g.A[r - 1][*c - 1] = g.A[r - 1][*c - 1] + *b; }
    for (int r = 1; r <= g.rows; r++) g.rhs.push_back(g.model->rhs(r));
    for (auto it = g.model->points->begin(); it != g.model->points->end(); ++it) { g3::Point* p = *it; g.idx[p->name] = {(int)p->N.index(), (int)p->E.index(), (int)p->U.index()}; }
    g.model->update_adjustment();
    const Vec<>& x = g.model->adj->x(); for (int i = 1; i <= g.cols; i++) g.x.push_back(x(i));
    const Vec<>& res = g.model->adj->r(); for (int i = 1; i <= g.rows; i++) g.r.push_back(res(i));
    g.rtr = g.model->adj->rtr(); g.defect = g.model->adj->defect(); g.redundancy = g.model->redundancy;
    for (auto it = g.model->points->begin(); it != g.model->points->end(); ++it) { g3::Point* p = *it;
      // the first statements of Point::write_xml: the adjusted n,e,u become corrections of X,Y,Z (the rest of write_xml converts to
      // ellipsoidal coordinates by iteration and is outside the claim)
      Real n = p->N(), e = p->E(), u = p->U();
      p->X_.set_correction(p->x_transform(n, e, u)); p->Y_.set_correction(p->y_transform(n, e, u)); p->Z_.set_correction(p->z_transform(n, e, u));
      g.xyz[p->name] = {p->X(), p->Y(), p->Z()}; }
    g.ok = true;
  } catch (const Exception::matvec& ex) { g.why = std::string("matvec: ") + ex.what(); }
    catch (const Exception::string& ex) { g.why = ex.str; }
  return true;
}

// the local frame at an equator point: n = (0,0,1), e = (-sin l, cos l, 0), u = (cos l, sin l, 0)
static void frame(const GPt& p, Q n[3], Q e[3], Q u[3]) { Q c = p.lon == 0 ? 1 : p.lon == 2 ? -1 : 0, s = p.lon == 1 ? 1 : p.lon == 3 ? -1 : 0; n[0] = 0; n[1] = 0; n[2] = 1; e[0] = -s; e[1] = c; e[2] = 0; u[0] = c; u[1] = s; u[2] = 0; }

static std::vector<std::vector<Real>> sym_errors(const GSpec& s, bool zero = false) {
  std::vector<std::vector<Real>> err; int k = 0;
  for (auto& o : s.obs) { std::vector<Real> ev; for (int c = 0; c < o.dim(); c++) { if (zero) { ev.push_back(sx::rat(0)); continue; } Real e = sx::input("e" + std::to_string(++k)); sx::assume_range(e, Q(-1, 100), Q(1, 100)); ev.push_back(e); } err.push_back(ev); }
  return err;
}

static void case_g3(const GSpec& s0) {
  GSpec s = s0;
  std::vector<std::vector<Real>> errs = sym_errors(s);
  Adj::algorithm algs[] = {Adj::envelope, Adj::cholesky, Adj::gso};
  std::vector<std::unique_ptr<GRun>> runs;
  for (auto alg : algs) { runs.emplace_back(new GRun); if (!build_g3(*runs.back(), s, errs, alg)) return; }
  GRun& g = *runs[0];
  sx::check_true(g.ok, s.name + " adjusted", g.why); if (!g.ok) return;
  int m = g.rows, n = g.cols;
  int expect_m = 0; for (auto& o : s.obs) expect_m += o.dim();
  sx::check_true(m == expect_m, s.name + " number of equations", std::to_string(m));
  int expect_n = 0; for (auto& p : s.pts) if (p.status != 'f') expect_n += 3;
  sx::check_true(n == expect_n, s.name + " three unknowns per non-fixed point", std::to_string(n)); if (m != expect_m || n != expect_n) return;
  // expected design matrix, right-hand side and weights, stated from the observation equations
  std::vector<std::vector<Real>> E(m, std::vector<Real>(n, sx::rat(0))); std::vector<Real> rhs(m, sx::rat(0)); QMat P(m, m); bool rational = true;
  auto put = [&](int row, const GPt& p, const Real gx[3], Real sign) {       // gradient with respect to X,Y,Z of the point -> coefficients of its n,e,u
    Q nn[3], ee[3], uu[3]; frame(p, nn, ee, uu); const std::vector<int>& ix = g.idx[p.id];
    Real cn = sx::rat(0), ce = sx::rat(0), cu = sx::rat(0); for (int t = 0; t < 3; t++) { cn = cn + gx[t] * sx::constant(nn[t]); ce = ce + gx[t] * sx::constant(ee[t]); cu = cu + gx[t] * sx::constant(uu[t]); }
    if (ix[0]) E[row][ix[0] - 1] = E[row][ix[0] - 1] + sign * cn; if (ix[1]) E[row][ix[1] - 1] = E[row][ix[1] - 1] + sign * ce; if (ix[2]) E[row][ix[2] - 1] = E[row][ix[2] - 1] + sign * cu; };
  int row = 0;
  for (size_t k = 0; k < s.order.size(); k++) { const GObs& v = s.obs[s.order[k]]; const GPt& a = s.pts[v.from]; const GPt& b = s.pts[v.to]; const std::vector<Real>& ev = errs[s.order[k]];
    for (auto* p : {&a, &b}) { const std::vector<int>& ix = g.idx[p->id]; bool unk = p->status != 'f'; sx::check_true((ix[0] > 0) == unk && (ix[1] > 0) == unk && (ix[2] > 0) == unk, s.name + " point " + p->id + ": n,e,u are unknowns exactly when the point is not fixed", ""); }
    if (v.kind <= 1) { QMat Ci = qla::inverse(qla::mul(v.L, qla::trans(v.L))); for (int i = 0; i < 3; i++) for (int j = 0; j < 3; j++) P(row + i, row + j) = Ci(i, j);
      for (int c = 0; c < 3; c++) { Real gx[3] = {sx::rat(c == 0), sx::rat(c == 1), sx::rat(c == 2)}; if (v.kind == 0) { put(row + c, a, gx, sx::rat(-1)); put(row + c, b, gx, sx::rat(1)); } else put(row + c, a, gx, sx::rat(1)); rhs[row + c] = ev[c] * sx::rat(1000); } }
    else { P(row, row) = 1 / (v.stdev * v.stdev); rhs[row] = ev[0] * sx::rat(1000);
      if (v.kind == 2) { Real d = true_dist(a, b); Real gx[3] = {sx::constant(b.x - a.x) / d, sx::constant(b.y - a.y) / d, sx::constant(b.z - a.z) / d}; put(row, a, gx, sx::rat(-1)); put(row, b, gx, sx::rat(1)); if (!sx::is_rational(d)) rational = false; }
      if (v.kind == 3) { if (g.idx[a.id][2]) E[row][g.idx[a.id][2] - 1] = sx::rat(-1); if (g.idx[b.id][2]) E[row][g.idx[b.id][2] - 1] = sx::rat(1); }
      if (v.kind == 4) { if (g.idx[a.id][2]) E[row][g.idx[a.id][2] - 1] = sx::rat(1); } }
    row += v.dim(); }
  for (int i = 0; i < m; i++) { sx::check_eq(g.rhs[i], rhs[i], s.name + " right-hand side of equation " + std::to_string(i + 1) + " = 1000 x error"); for (int j = 0; j < n; j++) sx::check_eq(g.A[i][j], E[i][j], s.name + " coefficient " + std::to_string(i + 1) + "," + std::to_string(j + 1)); }
  // defect and redundancy against the exact null space (when the design matrix is rational)
  int defect = -1;
  if (rational) { QMat Aq(m, n); bool ok = true; for (int i = 0; i < m; i++) for (int j = 0; j < n; j++) { mpq_class q; if (!sx::is_rational(E[i][j], &q)) ok = false; else Aq(i, j) = q; }
    if (ok) { defect = qla::nullspace(Aq).c; sx::check_true(g.defect == defect, s.name + " defect equals the nullity of the design matrix", std::to_string(g.defect) + " vs " + std::to_string(defect)); sx::check_true(g.redundancy == m - n + defect, s.name + " redundancy = equations - unknowns + defect", std::to_string(g.redundancy)); } }
  if (defect < 0) { bool fixed = false; for (auto& p : s.pts) if (p.status == 'f') fixed = true; if (fixed) { sx::check_true(g.defect == 0, s.name + " no defect with a fixed point and distances", std::to_string(g.defect)); sx::check_true(g.redundancy == m - n, s.name + " redundancy = equations - unknowns", ""); } }
  // optimality and residuals
  for (int i = 0; i < m; i++) { Real ax = sx::rat(0); for (int j = 0; j < n; j++) ax = ax + E[i][j] * g.x[j]; sx::check_eq(g.r[i], ax - rhs[i], s.name + " residual = Ax - b, row " + std::to_string(i + 1)); }
  std::vector<Real> Pr(m, sx::rat(0)); for (int i = 0; i < m; i++) for (int k = 0; k < m; k++) if (P(i, k) != 0) Pr[i] = Pr[i] + sx::constant(P(i, k)) * g.r[k];
  for (int j = 0; j < n; j++) { Real t = sx::rat(0); for (int i = 0; i < m; i++) t = t + E[i][j] * Pr[i]; sx::check_zero(t, s.name + " normal equation " + std::to_string(j + 1)); }
  Real vpv = sx::rat(0); for (int i = 0; i < m; i++) vpv = vpv + g.r[i] * Pr[i]; sx::check_eq(g.rtr, vpv, s.name + " sum of squares");
  for (auto& p : s.pts) { auto& c = g.xyz[p.id]; Q gen[3] = {p.x, p.y, p.z}; if (p.status == 'f') for (int k = 0; k < 3; k++) sx::check_eq(c[k], sx::constant(gen[k]), s.name + " fixed point " + p.id + " unchanged"); }
  // adjusted linear observations: observed + residual = the same function of the adjusted coordinates
  row = 0;
  for (size_t k = 0; k < s.order.size(); k++) { const GObs& v = s.obs[s.order[k]]; const GPt& a = s.pts[v.from]; const GPt& b = s.pts[v.to]; const std::vector<Real>& ev = errs[s.order[k]];
    if (v.kind == 0) { Q gen[3] = {b.x - a.x, b.y - a.y, b.z - a.z}; for (int c = 0; c < 3; c++) sx::check_eq(g.xyz[b.id][c] - g.xyz[a.id][c], sx::constant(gen[c]) + ev[c] + g.r[row + c] / sx::rat(1000), s.name + " adjusted vector " + std::to_string(k + 1) + " = difference of adjusted coordinates, component " + std::to_string(c + 1)); }
    if (v.kind == 1) { Q gen[3] = {a.x, a.y, a.z}; for (int c = 0; c < 3; c++) sx::check_eq(g.xyz[a.id][c], sx::constant(gen[c]) + ev[c] + g.r[row + c] / sx::rat(1000), s.name + " adjusted observed coordinate " + std::to_string(k + 1) + " = adjusted coordinate, component " + std::to_string(c + 1)); }
    row += v.dim(); }
  // all algorithms agree
  for (size_t a = 1; a < runs.size(); a++) { GRun& h = *runs[a]; std::string t = s.name + " algorithm " + std::to_string(a) + " vs envelope";
    sx::check_true(h.ok, t + " adjusted", h.why); if (!h.ok) continue;
    sx::check_true(h.defect == g.defect && h.redundancy == g.redundancy, t + " defect and redundancy", "");
    for (auto& kv : g.xyz) for (int c = 0; c < 3; c++) sx::check_eq(h.xyz[kv.first][c], kv.second[c], t + " adjusted coordinate of " + kv.first);
    for (int i = 0; i < m; i++) sx::check_eq(h.r[i], g.r[i], t + " residual " + std::to_string(i + 1)); sx::check_eq(h.rtr, g.rtr, t + " sum of squares"); }
  // any order of the input records
  { GSpec s2 = s; std::reverse(s2.order.begin(), s2.order.end()); if (s2.order.size() > 2) std::swap(s2.order[0], s2.order[1]);
    GRun h; if (!build_g3(h, s2, errs, Adj::envelope)) return; std::string t = s.name + " permuted records";
    sx::check_true(h.ok, t + " adjusted", h.why);
    if (h.ok) { for (auto& kv : g.xyz) for (int c = 0; c < 3; c++) sx::check_eq(h.xyz[kv.first][c], kv.second[c], t + " adjusted coordinate of " + kv.first); sx::check_eq(h.rtr, g.rtr, t + " sum of squares"); sx::check_true(h.redundancy == g.redundancy, t + " redundancy", ""); } }
  // the project-equation dump, read by the real parser and adjusted by the general adjustment class, gives the same solution
  { std::ostringstream dump; dump.precision(16); dump << DataObject::Base::xml_begin(); g.model->write_xml_adjustment_input_data(dump); dump << DataObject::Base::xml_end();
    std::list<DataObject::Base*> objects; DataParser parser(objects); std::string text = dump.str(); bool parsed = true;
    try { parser.xml_parse(text.c_str(), (int)text.size(), 1); } catch (const Exception::parser& p) { parsed = false; sx::fail(s.name + " project-equation dump rejected by the parser", p.str + " line " + std::to_string(p.line)); }
    if (parsed) { AdjInputData* in = nullptr; for (auto* o : objects) { if (auto* d = dynamic_cast<DataObject::AdjInput*>(o)) { in = d->data; d->data = nullptr; } delete o; }
      sx::check_true(in != nullptr, s.name + " dump contains adj-input-data", "");
      if (in) { Adj adj; adj.set(in); adj.set_algorithm(Adj::cholesky); const Vec<>& x = adj.x();
        sx::check_true(x.dim() == n, s.name + " dump: number of unknowns", ""); if (x.dim() == n) for (int j = 1; j <= n; j++) {
          if (rational) sx::check_eq(x(j), g.x[j - 1], s.name + " dump adjusted by Adj: unknown " + std::to_string(j));
          else { Real d = x(j) - g.x[j - 1];      // irrational coefficients are written with 16 digits: equal to 1e-6 mm
            sx::check_le(d, sx::rat(1, 1000000), s.name + " dump adjusted by Adj: unknown " + std::to_string(j)); sx::check_le(-d, sx::rat(1, 1000000), s.name + " dump adjusted by Adj: unknown " + std::to_string(j)); } } } } }
  sx::reached("g3");
}
// error-free observations reproduce the generating coordinates exactly
static void case_g3_consistent(const GSpec& s) {
  std::vector<std::vector<Real>> errs = sym_errors(s, true);
  GRun g; if (!build_g3(g, s, errs, Adj::envelope)) return; sx::check_true(g.ok, s.name + " adjusted", g.why); if (!g.ok) return;
  for (auto& p : s.pts) { Q gen[3] = {p.x, p.y, p.z}; for (int c = 0; c < 3; c++) sx::check_eq(g.xyz[p.id][c], sx::constant(gen[c]), s.name + " consistent observations reproduce point " + p.id); }
  for (auto& r : g.r) sx::check_zero(r, s.name + " zero residuals");
  sx::reached("g3-consistent");
}

// ---- points anywhere the sine and cosine are expressible: latitude 0 / +-45 deg, longitude k*45 deg, given as B, L, H -----------
// (the rotation then contains sin/cos atoms and the radius of curvature a radical; the expected equations are stated with the same
//  atoms from the latitude and longitude the model holds, so the comparison is exact; distances carry instrument / target heights)
struct BPt { std::string id, b, l; Q h; char status; Q geoid; };
struct BObs { int kind; int from, to; QMat L; Q stdev; Q fdh, tdh; int dim() const { return kind <= 1 ? 3 : 1; } };
struct BSpec { std::string name; std::vector<BPt> pts; std::vector<BObs> obs; };
struct V3 { Real x, y, z; };
static V3 operator+(V3 a, V3 b) { return {a.x + b.x, a.y + b.y, a.z + b.z}; } static V3 operator-(V3 a, V3 b) { return {a.x - b.x, a.y - b.y, a.z - b.z}; }
static V3 operator*(V3 a, Real k) { return {a.x * k, a.y * k, a.z * k}; } static Real dot(V3 a, V3 b) { return a.x * b.x + a.y * b.y + a.z * b.z; }
struct BFrame { V3 n, e, u, xyz; Real sb; };

static std::string g3b_xml(const BSpec& s) {
  std::ostringstream o;
  o << "<?xml version=\"1.0\" ?>\n<gnu-gama-data xmlns=\"http://www.gnu.org/software/gama/gnu-gama-data\">\n<g3-model>\n"
    << "<constants><apriori-standard-deviation>1</apriori-standard-deviation><confidence-level>0.95</confidence-level><tol-abs>1e12</tol-abs><ellipsoid><id>wgs84</id></ellipsoid></constants>\n";
  for (auto& p : s.pts) { const char* tag = p.status == 'f' ? "fixed" : p.status == 'a' ? "free" : "constr";
    o << "<" << tag << "> <n/> <e/> <u/> </" << tag << ">\n<point> <id>" << p.id << "</id> <b>" << p.b << "</b> <l>" << p.l << "</l> <h>" << qs(p.h) << "</h> <geoid>" << qs(p.geoid) << "</geoid> </point>\n"; }
  for (auto& v : s.obs) { const BPt& a = s.pts[v.from]; const BPt& b = s.pts[v.to];      // the values are placeholders: the true ones (radicals) are set after parsing
    o << "<obs>\n";
    if (v.kind == 0) o << " <vector> <from>" << a.id << "</from> <to>" << b.id << "</to> <dx>0</dx> <dy>0</dy> <dz>0</dz> </vector>\n";
    if (v.kind == 1) o << " <xyz> <id>" << a.id << "</id> <x>0</x> <y>0</y> <z>0</z> </xyz>\n";
    if (v.kind <= 1) { QMat C = qla::mul(v.L, qla::trans(v.L)); o << " <cov-mat> <dim>3</dim> <band>2</band>\n"; for (int i = 0; i < 3; i++) { for (int j = i; j < 3; j++) o << " <flt>" << qs(C(i, j)) << "</flt>"; o << "\n"; } o << " </cov-mat>\n"; }
    if (v.kind == 2) { o << " <distance> <from>" << a.id << "</from> <to>" << b.id << "</to> <val>1</val> <stdev>" << qs(v.stdev) << "</stdev>"; if (v.fdh != 0) o << " <from-dh>" << qs(v.fdh) << "</from-dh>"; if (v.tdh != 0) o << " <to-dh>" << qs(v.tdh) << "</to-dh>"; o << " </distance>\n"; }
    if (v.kind == 3) o << " <hdiff> <from>" << a.id << "</from> <to>" << b.id << "</to> <val>0</val> <stdev>" << qs(v.stdev) << "</stdev> </hdiff>\n";
    if (v.kind == 4) o << " <height> <id>" << a.id << "</id> <val>0</val> <stdev>" << qs(v.stdev) << "</stdev> </height>\n";
    o << "</obs>\n"; }
  o << "</g3-model>\n</gnu-gama-data>\n";
  return o.str();
}

static void case_g3b(const BSpec& s, bool consistent) {
  std::vector<std::vector<Real>> errs; { int k = 0; for (auto& o : s.obs) { std::vector<Real> ev; for (int c = 0; c < o.dim(); c++) { if (consistent) { ev.push_back(sx::rat(0)); continue; } Real e = sx::input("e" + std::to_string(++k)); sx::assume_range(e, Q(-1, 100), Q(1, 100)); ev.push_back(e); } errs.push_back(ev); } }
  // with symbolic errors only the equations are compared (the solution over sin/cos/sqrt atoms does not reduce to a normal form and z3
  // answers unknown on the normal equations: 260 s without a verdict); error-free observations are adjusted (zero corrections, exactly)
  Adj::algorithm algs[] = {Adj::envelope, Adj::cholesky, Adj::gso}; int nalg = 1;
  std::vector<std::unique_ptr<GRun>> runs; std::vector<BFrame> fr(s.pts.size()); int m = 0, n = 0;
  std::vector<std::vector<Real>> E; std::vector<Real> rhs; QMat P;
  for (int ai = 0; ai < nalg; ai++) {
    runs.emplace_back(new GRun); GRun& g = *runs.back(); std::string err;
    g.model.reset(parse_model(g3b_xml(s), err)); if (!g.model) { sx::fail("generated g3 input rejected", err); return; }
    for (auto i = g.model->obsdata.begin(), end = g.model->obsdata.end(); i != end; ++i) g.obs.push_back(*i);
    if (g.obs.size() != s.obs.size()) { sx::fail("number of observations read", std::to_string(g.obs.size())); return; }
    // frames and generating X,Y,Z from the latitude, longitude and height the model holds (formulas stated here)
    Real a = g.model->ellipsoid.a(), e2 = g.model->ellipsoid.e2;
    for (size_t i = 0; i < s.pts.size(); i++) { g3::Point* p = g.model->points->find(s.pts[i].id); if (!p) { sx::fail("point not read", s.pts[i].id); return; }
      Real B = p->B(), L = p->L(), H = p->H(); Real sb = sin(B), cb = cos(B), sl = sin(L), cl = cos(L); Real N = a / sqrt(sx::rat(1) - e2 * sb * sb);
      BFrame f; f.sb = sb; f.n = {-sb * cl, -sb * sl, cb}; f.e = {-sl, cl, sx::rat(0)}; f.u = {cb * cl, cb * sl, sb}; f.xyz = {(N + H) * cb * cl, (N + H) * cb * sl, (N * (sx::rat(1) - e2) + H) * sb}; fr[i] = f;
      if (ai == 0) { sx::check_eq(p->X(), f.xyz.x, s.name + " X of " + s.pts[i].id + " = (N+h) cos B cos L"); sx::check_eq(p->Y(), f.xyz.y, s.name + " Y of " + s.pts[i].id + " = (N+h) cos B sin L"); sx::check_eq(p->Z(), f.xyz.z, s.name + " Z of " + s.pts[i].id + " = (N(1-e^2)+h) sin B");
        sx::check_eq(H, sx::constant(s.pts[i].h), s.name + " height of " + s.pts[i].id + " as given"); } }
    // true values + errors
    for (size_t k = 0; k < g.obs.size(); k++) { const BObs& v = s.obs[k]; const BFrame& A = fr[v.from]; const BFrame& Bq = fr[v.to]; const std::vector<Real>& ev = errs[k]; bool ok = true;
      if (v.kind == 0) { auto* o = dynamic_cast<g3::Vector*>(g.obs[k]); V3 d = Bq.xyz - A.xyz; if (o) o->set_dxyz(d.x + ev[0], d.y + ev[1], d.z + ev[2]); else ok = false; }
      if (v.kind == 1) { auto* o = dynamic_cast<g3::XYZ*>(g.obs[k]); if (o) o->set_xyz(A.xyz.x + ev[0], A.xyz.y + ev[1], A.xyz.z + ev[2]); else ok = false; }
      if (v.kind == 2) { auto* o = dynamic_cast<g3::Distance*>(g.obs[k]); V3 d = (Bq.xyz + Bq.u * sx::constant(v.tdh)) - (A.xyz + A.u * sx::constant(v.fdh)); if (o) o->set(sqrt(dot(d, d)) + ev[0]); else ok = false; }
      if (v.kind == 3) { auto* o = dynamic_cast<g3::HeightDiff*>(g.obs[k]); if (o) o->set(sx::constant((s.pts[v.to].h - s.pts[v.to].geoid) - (s.pts[v.from].h - s.pts[v.from].geoid)) + ev[0]); else ok = false; }
      if (v.kind == 4) { auto* o = dynamic_cast<g3::Height*>(g.obs[k]); if (o) o->set(sx::constant(s.pts[v.from].h - s.pts[v.from].geoid) + ev[0]); else ok = false; }
      if (!ok) { sx::fail("observation read with another type", std::to_string(k + 1)); return; } }
    try {
      g.model->set_algorithm(algs[ai]); g.model->update_linearization(); g.rows = g.model->dm_rows; g.cols = g.model->dm_cols;
      g.A.assign(g.rows, std::vector<Real>(g.cols, sx::rat(0)));
      for (int r = 1; r <= g.rows; r++) { Real* b = g.model->A->begin(r); Real* en = g.model->A->end(r); int* c = g.model->A->ibegin(r); for (; b != en; ++b, ++c) g.A[r - 1][*c - 1] = g.A[r - 1][*c - 1] + *b; }
      for (int r = 1; r <= g.rows; r++) g.rhs.push_back(g.model->rhs(r));
      for (auto it = g.model->points->begin(); it != g.model->points->end(); ++it) { g3::Point* p = *it; g.idx[p->name] = {(int)p->N.index(), (int)p->E.index(), (int)p->U.index()}; }
      if (consistent) { g.model->update_adjustment();
        const Vec<>& x = g.model->adj->x(); for (int i = 1; i <= g.cols; i++) g.x.push_back(x(i));
        const Vec<>& res = g.model->adj->r(); for (int i = 1; i <= g.rows; i++) g.r.push_back(res(i));
        g.rtr = g.model->adj->rtr(); g.defect = g.model->adj->defect(); g.redundancy = g.model->redundancy; }
      g.ok = true;
    } catch (const Exception::matvec& ex) { g.why = std::string("matvec: ") + ex.what(); } catch (const Exception::string& ex) { g.why = ex.str; }
    sx::check_true(g.ok, s.name + (consistent ? " adjusted" : " linearised"), g.why); if (!g.ok) return;
    if (ai > 0) continue;
    // expected equations
    m = g.rows; n = g.cols; int em = 0; for (auto& o : s.obs) em += o.dim(); int en = 0; for (auto& p : s.pts) if (p.status != 'f') en += 3;
    sx::check_true(m == em && n == en, s.name + " numbers of equations and unknowns", std::to_string(m) + "x" + std::to_string(n)); if (m != em || n != en) return;
    E.assign(m, std::vector<Real>(n, sx::rat(0))); rhs.assign(m, sx::rat(0)); P = QMat(m, m);
    auto put = [&](int row, int pi, V3 gx, Real sign) { const BFrame& f = fr[pi]; const std::vector<int>& ix = g.idx[s.pts[pi].id];
      if (ix[0]) E[row][ix[0] - 1] = E[row][ix[0] - 1] + sign * dot(gx, f.n); if (ix[1]) E[row][ix[1] - 1] = E[row][ix[1] - 1] + sign * dot(gx, f.e); if (ix[2]) E[row][ix[2] - 1] = E[row][ix[2] - 1] + sign * dot(gx, f.u); };
    int row = 0;
    for (size_t k = 0; k < s.obs.size(); k++) { const BObs& v = s.obs[k]; const std::vector<Real>& ev = errs[k];
      if (v.kind <= 1) { QMat Ci = qla::inverse(qla::mul(v.L, qla::trans(v.L))); for (int i = 0; i < 3; i++) for (int j = 0; j < 3; j++) P(row + i, row + j) = Ci(i, j);
        for (int c = 0; c < 3; c++) { V3 gx{sx::rat(c == 0), sx::rat(c == 1), sx::rat(c == 2)}; if (v.kind == 0) { put(row + c, v.from, gx, sx::rat(-1)); put(row + c, v.to, gx, sx::rat(1)); } else put(row + c, v.from, gx, sx::rat(1)); rhs[row + c] = ev[c] * sx::rat(1000); } }
      else { P(row, row) = 1 / (v.stdev * v.stdev); rhs[row] = ev[0] * sx::rat(1000);
        if (v.kind == 2) { V3 d = fr[v.to].xyz - fr[v.from].xyz; Real dd = sqrt(dot(d, d)); V3 gx{d.x / dd, d.y / dd, d.z / dd}; put(row, v.from, gx, sx::rat(-1)); put(row, v.to, gx, sx::rat(1)); }      // the model takes the direction of the line between the marks
        if (v.kind == 3) { if (g.idx[s.pts[v.from].id][2]) E[row][g.idx[s.pts[v.from].id][2] - 1] = sx::rat(-1); if (g.idx[s.pts[v.to].id][2]) E[row][g.idx[s.pts[v.to].id][2] - 1] = sx::rat(1); }
        if (v.kind == 4) { if (g.idx[s.pts[v.from].id][2]) E[row][g.idx[s.pts[v.from].id][2] - 1] = sx::rat(1); } }
      row += v.dim(); }
    for (int i = 0; i < m; i++) { sx::check_eq(g.rhs[i], rhs[i], s.name + " right-hand side of equation " + std::to_string(i + 1) + " = 1000 x error"); for (int j = 0; j < n; j++) sx::check_eq(g.A[i][j], E[i][j], s.name + " coefficient " + std::to_string(i + 1) + "," + std::to_string(j + 1)); }
    bool fixed = false; for (auto& p : s.pts) if (p.status == 'f') fixed = true;
    if (fixed && consistent) sx::check_true(g.defect == 0 && g.redundancy == m - n, s.name + " defect 0 and redundancy with a fixed point", std::to_string(g.defect));
    if (consistent) { for (auto& x : g.x) sx::check_zero(x, s.name + " consistent observations: zero corrections"); for (auto& r : g.r) sx::check_zero(r, s.name + " consistent observations: zero residuals"); }
  }
  for (size_t a = 1; a < runs.size(); a++) { GRun& h = *runs[a]; GRun& g = *runs[0]; std::string t = s.name + " algorithm " + std::to_string(a) + " vs envelope";
    for (int j = 0; j < n; j++) sx::check_eq(h.x[j], g.x[j], t + " unknown " + std::to_string(j + 1)); for (int i = 0; i < m; i++) sx::check_eq(h.r[i], g.r[i], t + " residual " + std::to_string(i + 1)); sx::check_eq(h.rtr, g.rtr, t + " sum of squares"); }
  sx::reached(consistent ? "g3b-consistent" : "g3b");
}

static void gen_cases(const sx::Options& opt, std::vector<sx::Case>& cases) {
  bool th = opt.tier == "thorough";
  qla::Rng rng(1900 + opt.seed);
  auto lfac = [&]() { QMat L(3, 3); for (int i = 0; i < 3; i++) { L(i, i) = rng.range(1, 3); for (int j = 0; j < i; j++) L(i, j) = Q(rng.range(-1, 1), 2); } return L; };
  std::vector<GSpec> specs;
  const char* statuses[] = {"faaa", "fafa", "cccc", "acca", "ffaa"};
  int ed[6][2] = {{0,1},{1,2},{2,3},{3,0},{0,2},{1,3}};
  for (int k = 0; k < (th ? 5 : 3); k++) {      // vectors only (free networks included)
    GSpec s; s.name = std::string("equator4-") + statuses[k];
    for (int i = 0; i < 4; i++) s.pts.push_back(eq_point("P" + std::to_string(i + 1), i, 10 + 7 * i + rng.range(0, 5), statuses[k][i]));
    for (int e = 0; e < (k % 2 ? 5 : 6); e++) s.obs.push_back({0, ed[e][0], ed[e][1], lfac(), Q(1)});
    for (size_t i = 0; i < s.obs.size(); i++) s.order.push_back((int)i);
    specs.push_back(s);
  }
  for (int k = 0; k < (th ? 3 : 2); k++) {      // mixed observation types
    static const char* st[] = {"faaa", "ffaa", "faca"};
    GSpec s; s.name = std::string("equator4-mixed-") + st[k];
    for (int i = 0; i < 4; i++) s.pts.push_back(eq_point("P" + std::to_string(i + 1), i, 10 + 7 * i + rng.range(0, 5), st[k][i]));
    for (int e = 0; e < 4; e++) s.obs.push_back({0, ed[e][0], ed[e][1], lfac(), Q(1)});
    s.obs.push_back({1, 2, 2, lfac(), Q(1)}); if (k != 1) s.obs.push_back({1, 1, 1, lfac(), Q(1)});
    s.obs.push_back({2, 0, 2, QMat(), Q(3)}); s.obs.push_back({2, 1, 3, QMat(), Q(4)}); s.obs.push_back({2, 0, 1, QMat(), Q(5)}); s.obs.push_back({2, 3, 2, QMat(), Q(2)});
    s.obs.push_back({3, 0, 1, QMat(), Q(2)}); s.obs.push_back({3, 2, 3, QMat(), Q(3)}); s.obs.push_back({3, 3, 1, QMat(), Q(2)});
    s.obs.push_back({4, 2, 2, QMat(), Q(4)}); s.obs.push_back({4, 3, 3, QMat(), Q(2)});
    for (size_t i = 0; i < s.obs.size(); i++) s.order.push_back((int)i);
    specs.push_back(s);
  }
  { // general position (B,L,H given; sin and cos expressible)
    BSpec s; s.name = "blh4-faaf";
    s.pts = {{"Q1", "45-00-00", "0-00-00", Q(120), 'f', Q(1)}, {"Q2", "0-00-00", "45-00-00", Q(35), 'a', Q(2)}, {"Q3", "-45-00-00", "90-00-00", Q(410), 'a', Q(3, 2)}, {"Q4", "45-00-00", "135-00-00", Q(15), 'f', Q(1, 2)}};
    s.obs.push_back({0, 0, 1, lfac(), Q(1), Q(0), Q(0)}); s.obs.push_back({0, 1, 2, lfac(), Q(1), Q(0), Q(0)}); s.obs.push_back({0, 3, 2, lfac(), Q(1), Q(0), Q(0)}); s.obs.push_back({1, 1, 1, lfac(), Q(1), Q(0), Q(0)});
    s.obs.push_back({2, 0, 1, QMat(), Q(3), Q(3, 2), Q(0)}); s.obs.push_back({2, 2, 3, QMat(), Q(4), Q(5, 4), Q(2)});      /* instrument and target heights are binary fractions: they pass through the text exactly */ s.obs.push_back({2, 1, 2, QMat(), Q(2), Q(0), Q(0)});
    s.obs.push_back({3, 1, 2, QMat(), Q(2), Q(0), Q(0)}); s.obs.push_back({4, 2, 2, QMat(), Q(3), Q(0), Q(0)});
    auto sp = std::make_shared<BSpec>(s);
    cases.push_back({"g3/" + s.name, "gama-g3 model, general position", [sp] { case_g3b(*sp, false); }});
    cases.push_back({"g3-consistent/" + s.name, "gama-g3 model, general position, error-free", [sp] { case_g3b(*sp, true); }}); }
  for (auto& s : specs) { auto sp = std::make_shared<GSpec>(s);
    cases.push_back({"g3/" + s.name, "gama-g3 model", [sp] { case_g3(*sp); }});
    cases.push_back({"g3-consistent/" + s.name, "gama-g3 model, error-free", [sp] { case_g3_consistent(*sp); }}); }
}
int main(int argc, char** argv) { return sx::run_main(argc, argv, "g3", gen_cases); }
