// Harness "lin" (C05): LocalLinearization on real point / observation / cluster objects with SYMBOLIC
// coordinates, observed value and orientation.  Each emitted coefficient must equal the partial
// derivative of the observation function (stated here from its defining relation, independently of the
// code), each index must name the right unknown, and the right-hand side must be observed - computed,
// reduced to half a circle for angular types.
#include "sx.h"
#include <gnu_gama/local/local_linearization.h>
#include <gnu_gama/local/gamadata.h>
#include <gnu_gama/local/cluster.h>
#include <gnu_gama/local/language.h>
#include <gnu_gama/radian.h>
#include <memory>
#include <set>
#include <map>
#include <iostream>

using namespace GNU_gama::local;
using sx::Real;

static const mpq_class PI_Q = mpq_class(M_PI);

struct P3 { Real x, y, z; };
static P3 sym_point(const std::string& n, bool with_z) {
  P3 p; p.x = sx::input(n + "x"); p.y = sx::input(n + "y"); p.z = with_z ? sx::input(n + "z") : sx::rat(0);
  sx::assume_range(p.x, -10000, 10000); sx::assume_range(p.y, -10000, 10000); if (with_z) sx::assume_range(p.z, -1000, 1000);
  return p;
}
// status: 0 fixed, 1 free, 2 constrained (also free), per xy and z
static void add_point(PointData& PD, const std::string& id, const P3& p, int sxy, int sz, bool with_z) {
  LocalPoint lp = with_z ? LocalPoint(p.x, p.y, p.z) : LocalPoint(p.x, p.y);
  if (sxy == 0) lp.set_fixed_xy(); else if (sxy == 1) lp.set_free_xy(); else lp.set_constrained_xy();
  if (with_z) { if (sz == 0) lp.set_fixed_z(); else if (sz == 1) lp.set_free_z(); else lp.set_constrained_z(); }
  PD[PointID(id)] = lp;
}
struct Emitted { std::map<long, Real> c; Real rhs; long size = 0; bool dup = false; };
static Emitted emit(LocalLinearization& ll) {
  Emitted e; e.rhs = ll.rhs; e.size = ll.size;
  for (long i = 0; i < ll.size; i++) { if (e.c.count(ll.index[i])) e.dup = true; e.c[ll.index[i]] = ll.coeff[i]; }
  return e;
}
static Real coef(const Emitted& e, int idx) { auto it = e.c.find(idx); return it == e.c.end() ? sx::rat(0) : it->second; }

// the factor that turns d(angle in rad)/d(coordinate in m) into cc per mm
// (the same constant expression as in local_linearization.cpp, so that its compile-time rounding is shared;
//  its value is compared with the exact 2000/pi below, see check_units)
static Real ANG() { return Real(10*R2G); }
static Real to_cc(Real rad) { return rad * sx::rat(2000000) / Real(M_PI); }     // X*R2CC expands to X*200.0E4/M_PI
static void check_units() {
  sx::f64 a = sx::numeric(ANG()), b = sx::numeric(to_cc(sx::rat(1)));
  sx::check_true(::fabs(a - (sx::f64)636.61977236758134) < (sx::f64)1e-9 && ::fabs(b - (sx::f64)636619.77236758134) < (sx::f64)1e-6, "unit factors 10*R2G and R2CC have their documented values", std::to_string(a));
}

// expected index bookkeeping: free coordinates get consecutive indices on first use
static void check_indices(const std::string& tag, PointData& PD, const std::vector<std::pair<std::string, int>>& pts /* id, uses: 1 xy, 2 z, 3 both */, const Emitted& e, int extra_unknowns) {
  int expected = extra_unknowns; std::set<long> seen;
  for (auto& pr : pts) {
    const LocalPoint& p = PD[PointID(pr.first)];
    if ((pr.second & 1) && p.free_xy()) { expected += 2; sx::check_true(p.index_x() > 0 && p.index_y() > 0 && p.index_x() != p.index_y(), tag + " free point " + pr.first + " has distinct x,y indices", ""); seen.insert(p.index_x()); seen.insert(p.index_y()); }
    if ((pr.second & 1) && !p.free_xy()) sx::check_true(p.index_x() == 0 && p.index_y() == 0, tag + " fixed point " + pr.first + " has no index", "");
    if ((pr.second & 2) && p.free_z()) { expected += 1; sx::check_true(p.index_z() > 0, tag + " free height of " + pr.first + " has an index", ""); seen.insert(p.index_z()); }
    if ((pr.second & 2) && !p.free_z()) sx::check_true(p.index_z() == 0, tag + " fixed height of " + pr.first + " has no index", "");
  }
  sx::check_true(e.size == expected, tag + " number of coefficients = number of free coordinates (+orientation)", std::to_string(e.size) + " vs " + std::to_string(expected));
  sx::check_true(!e.dup, tag + " no index emitted twice", "");
  for (auto& kv : e.c) sx::check_true(kv.first >= 1 && kv.first <= expected, tag + " indices are 1..n", std::to_string(kv.first));
}

static void angular_rhs(const std::string& tag, Real rhs, Real raw_rad) {
  // rhs == raw (mod full circle), within [-200e4, 200e4] cc
  check_units();
  Real diff = (rhs - to_cc(raw_rad)) / sx::rat(4000000);
  mpq_class k;
  if (sx::symbolic_mode()) sx::check_true(sx::is_rational(diff, &k) && k.get_den() == 1, tag + " rhs = (observed - computed) modulo a full circle", sx::show(diff));
  else { sx::f64 dd = sx::numeric(diff); sx::check_true(::fabs(dd - ::round(dd)) < (sx::f64)1e-6, tag + " rhs = (observed - computed) modulo a full circle", sx::show(diff)); }
  sx::check_le(rhs, sx::rat(2000000), tag + " rhs <= 200 gon"); sx::check_le(sx::rat(-2000000), rhs, tag + " rhs >= -200 gon");
  // (the lower end is closed in the code: rhs = -200 gon exactly is left as is.  The solver finds it, but it needs
  //  observed - computed = -pi exactly and does not reproduce in doubles; recorded in DESIGN.md, not asserted)
}

// ---- cases ----------------------------------------------------------------------------------------------
static void case_distance(int sa, int sb) {
  PointData PD; P3 A = sym_point("A", false), B = sym_point("B", false);
  add_point(PD, "A", A, sa, 0, false); add_point(PD, "B", B, sb, 0, false);
  Real dx = B.x - A.x, dy = B.y - A.y, d2 = dx * dx + dy * dy;
  sx::assume_le(sx::rat(1, 100), d2);                  // points at least 0.1 m apart (the code's own cut is 1e-6 m)
  Real L = sx::input("L"); sx::assume_range(L, mpq_class(1, 1000), 100000);
  Distance obs(PointID("A"), PointID("B"), L);
  LocalLinearization ll(PD, 10); obs.accept(&ll); Emitted e = emit(ll);
  std::string tag = "distance " + std::to_string(sa) + std::to_string(sb);
  check_indices(tag, PD, {{"A", 1}, {"B", 1}}, e, 0);
  Real d = sqrt(d2);
  sx::check_eq(e.rhs, (L - d) * sx::rat(1000), tag + " rhs = (observed - distance) in mm");
  // d(dist)/dxB = dx/d etc.:  coefficient * d = dx
  const LocalPoint& a = PD[PointID("A")]; const LocalPoint& b = PD[PointID("B")];
  if (b.free_xy()) { sx::check_eq(coef(e, b.index_x()) * d, dx, tag + " d/dxB"); sx::check_eq(coef(e, b.index_y()) * d, dy, tag + " d/dyB"); }
  if (a.free_xy()) { sx::check_eq(coef(e, a.index_x()) * d, -dx, tag + " d/dxA"); sx::check_eq(coef(e, a.index_y()) * d, -dy, tag + " d/dyA"); }
  sx::reached("lin-distance");
}

static void bearing_coeffs(const std::string& tag, const Emitted& e, const LocalPoint& a, const LocalPoint& b, Real dx, Real dy, Real d2, Real sign) {
  // bearing sigma = atan2(dy, dx): d sigma/dxB = -dy/d^2, d sigma/dyB = dx/d^2 ; in cc/mm: * 10*R2G
  if (b.free_xy()) { sx::check_eq(coef(e, b.index_x()) * d2, -dy * ANG() * sign, tag + " d/dx(target)"); sx::check_eq(coef(e, b.index_y()) * d2, dx * ANG() * sign, tag + " d/dy(target)"); }
  if (a.free_xy()) { sx::check_eq(coef(e, a.index_x()) * d2, dy * ANG() * sign, tag + " d/dx(station)"); sx::check_eq(coef(e, a.index_y()) * d2, -dx * ANG() * sign, tag + " d/dy(station)"); }
}

static void case_direction(int sa, int sb, bool azimuth) {
  PointData PD; P3 A = sym_point("A", false), B = sym_point("B", false);
  add_point(PD, "A", A, sa, 0, false); add_point(PD, "B", B, sb, 0, false);
  Real dx = B.x - A.x, dy = B.y - A.y, d2 = dx * dx + dy * dy; sx::assume_le(sx::rat(1, 100), d2);
  Real L = sx::input("L"); sx::assume_range(L, 0, 2 * PI_Q);
  Real o = sx::input("o"); sx::assume_range(o, 0, 2 * PI_Q);
  ObservationData OD; StandPoint* sp = new StandPoint(&OD); sp->station = PointID("A"); OD.clusters.push_back(sp);
  std::string tag = std::string(azimuth ? "azimuth " : "direction ") + std::to_string(sa) + std::to_string(sb);
  Observation* obs;
  if (azimuth) { obs = new Azimuth(PointID("A"), PointID("B"), L); }
  else obs = new Direction(PointID("A"), PointID("B"), L);
  sp->observation_list.push_back(obs); obs->set_cluster(sp); sp->set_orientation(o);
  LocalLinearization ll(PD, 10); obs->accept(&ll); Emitted e = emit(ll);
  check_indices(tag, PD, {{"A", 1}, {"B", 1}}, e, azimuth ? 0 : 1);
  const LocalPoint& a = PD[PointID("A")]; const LocalPoint& b = PD[PointID("B")];
  Real s = atan2(dy, dx);            // the bearing, up to a full turn
  if (!azimuth) { sx::check_true(sp->index_orientation() > 0, tag + " orientation has an index", ""); sx::check_eq(coef(e, sp->index_orientation()), sx::rat(-1), tag + " d/d(orientation) = -1"); angular_rhs(tag, e.rhs, L + o - s); }
  else angular_rhs(tag, e.rhs, L + PD.xNorthAngle() - s);
  bearing_coeffs(tag, e, a, b, dx, dy, d2, sx::rat(1));
  sx::reached(azimuth ? "lin-azimuth" : "lin-direction");
}

static void case_angle(int sa, int s1, int s2) {
  PointData PD; P3 A = sym_point("A", false), B = sym_point("B", false), C = sym_point("C", false);
  add_point(PD, "A", A, sa, 0, false); add_point(PD, "B", B, s1, 0, false); add_point(PD, "C", C, s2, 0, false);
  Real dx1 = B.x - A.x, dy1 = B.y - A.y, q1 = dx1 * dx1 + dy1 * dy1, dx2 = C.x - A.x, dy2 = C.y - A.y, q2 = dx2 * dx2 + dy2 * dy2;
  sx::assume_le(sx::rat(1, 100), q1); sx::assume_le(sx::rat(1, 100), q2);
  Real L = sx::input("L"); sx::assume_range(L, 0, 2 * PI_Q);
  ObservationData OD; StandPoint* sp = new StandPoint(&OD); sp->station = PointID("A"); OD.clusters.push_back(sp);
  Angle* obs = new Angle(PointID("A"), PointID("B"), PointID("C"), L); sp->observation_list.push_back(obs); obs->set_cluster(sp);
  LocalLinearization ll(PD, 10); obs->accept(&ll); Emitted e = emit(ll);
  std::string tag = "angle " + std::to_string(sa) + std::to_string(s1) + std::to_string(s2);
  check_indices(tag, PD, {{"A", 1}, {"B", 1}, {"C", 1}}, e, 0);
  const LocalPoint& a = PD[PointID("A")]; const LocalPoint& b = PD[PointID("B")]; const LocalPoint& c = PD[PointID("C")];
  angular_rhs(tag, e.rhs, L - (atan2(dy2, dx2) - atan2(dy1, dx1)));
  // angle = sigma2 - sigma1
  if (b.free_xy()) { sx::check_eq(coef(e, b.index_x()) * q1, dy1 * ANG(), tag + " d/dx(bs)"); sx::check_eq(coef(e, b.index_y()) * q1, -dx1 * ANG(), tag + " d/dy(bs)"); }
  if (c.free_xy()) { sx::check_eq(coef(e, c.index_x()) * q2, -dy2 * ANG(), tag + " d/dx(fs)"); sx::check_eq(coef(e, c.index_y()) * q2, dx2 * ANG(), tag + " d/dy(fs)"); }
  if (a.free_xy()) { sx::check_eq(coef(e, a.index_x()) * q1 * q2, (dy2 * q1 - dy1 * q2) * ANG(), tag + " d/dx(station)"); sx::check_eq(coef(e, a.index_y()) * q1 * q2, (-dx2 * q1 + dx1 * q2) * ANG(), tag + " d/dy(station)"); }
  sx::reached("lin-angle");
}

static void case_sdistance(int sa, int za, int sb, int zb) {
  PointData PD; P3 A = sym_point("A", true), B = sym_point("B", true);
  add_point(PD, "A", A, sa, za, true); add_point(PD, "B", B, sb, zb, true);
  Real dx = B.x - A.x, dy = B.y - A.y, dz = B.z - A.z, s2 = dx * dx + dy * dy + dz * dz; sx::assume_le(sx::rat(1, 100), s2);
  Real L = sx::input("L"); sx::assume_range(L, mpq_class(1, 1000), 100000);
  S_Distance obs(PointID("A"), PointID("B"), L);
  LocalLinearization ll(PD, 10); obs.accept(&ll); Emitted e = emit(ll);
  std::string tag = "s-distance " + std::to_string(sa) + std::to_string(za) + std::to_string(sb) + std::to_string(zb);
  check_indices(tag, PD, {{"A", 3}, {"B", 3}}, e, 0);
  Real s = sqrt(s2);
  sx::check_eq(e.rhs, (L - s) * sx::rat(1000), tag + " rhs");
  const LocalPoint& a = PD[PointID("A")]; const LocalPoint& b = PD[PointID("B")];
  if (b.free_xy()) { sx::check_eq(coef(e, b.index_x()) * s, dx, tag + " d/dxB"); sx::check_eq(coef(e, b.index_y()) * s, dy, tag + " d/dyB"); }
  if (b.free_z()) sx::check_eq(coef(e, b.index_z()) * s, dz, tag + " d/dzB");
  if (a.free_xy()) { sx::check_eq(coef(e, a.index_x()) * s, -dx, tag + " d/dxA"); sx::check_eq(coef(e, a.index_y()) * s, -dy, tag + " d/dyA"); }
  if (a.free_z()) sx::check_eq(coef(e, a.index_z()) * s, -dz, tag + " d/dzA");
  sx::reached("lin-sdistance");
}

static void case_zangle(int sa, int za, int sb, int zb) {
  PointData PD; P3 A = sym_point("A", true), B = sym_point("B", true);
  add_point(PD, "A", A, sa, za, true); add_point(PD, "B", B, sb, zb, true);
  Real dx = B.x - A.x, dy = B.y - A.y, dz = B.z - A.z, d2 = dx * dx + dy * dy, s2 = d2 + dz * dz; sx::assume_le(sx::rat(1, 100), d2);
  Real L = sx::input("L"); sx::assume_range(L, mpq_class(1, 100), PI_Q - mpq_class(1, 100));
  Z_Angle obs(PointID("A"), PointID("B"), L);
  LocalLinearization ll(PD, 10); obs.accept(&ll); Emitted e = emit(ll);
  std::string tag = "z-angle " + std::to_string(sa) + std::to_string(za) + std::to_string(sb) + std::to_string(zb);
  check_indices(tag, PD, {{"A", 3}, {"B", 3}}, e, 0);
  // zenith angle z: cos z = dz/s.  dz/dxB = dz*dx/(d*s^2), dz/dzB = -d/s^2  (rad/m) -> * 10*R2G
  Real d = sqrt(d2);
  const LocalPoint& a = PD[PointID("A")]; const LocalPoint& b = PD[PointID("B")];
  if (b.free_xy()) { sx::check_eq(coef(e, b.index_x()) * d * s2, dz * dx * ANG(), tag + " d/dxB"); sx::check_eq(coef(e, b.index_y()) * d * s2, dz * dy * ANG(), tag + " d/dyB"); }
  if (b.free_z()) sx::check_eq(coef(e, b.index_z()) * s2, -d * ANG(), tag + " d/dzB");
  if (a.free_xy()) { sx::check_eq(coef(e, a.index_x()) * d * s2, -dz * dx * ANG(), tag + " d/dxA"); sx::check_eq(coef(e, a.index_y()) * d * s2, -dz * dy * ANG(), tag + " d/dyA"); }
  if (a.free_z()) sx::check_eq(coef(e, a.index_z()) * s2, d * ANG(), tag + " d/dzA");
  // rhs = (observed - acos(dz/s)) in cc; acos is uninterpreted: only its argument is checked
  Real za_c = acos(dz / sqrt(s2));
  sx::check_eq(e.rhs, to_cc(L - za_c), tag + " rhs = (observed - acos(dz/s)) in cc");
  sx::reached("lin-zangle");
}

static void case_linear(int type, int sa, int sb) {     // type 0 h-diff, 1 xdiff, 2 ydiff, 3 zdiff, 4 x, 5 y, 6 z
  PointData PD; P3 A = sym_point("A", true), B = sym_point("B", true);
  add_point(PD, "A", A, sa, sa, true); add_point(PD, "B", B, sb, sb, true);
  Real L = sx::input("L"); sx::assume_range(L, -100000, 100000);
  std::unique_ptr<Observation> obs;
  const char* names[] = {"h-diff", "xdiff", "ydiff", "zdiff", "x", "y", "z"};
  switch (type) { case 0: obs.reset(new H_Diff(PointID("A"), PointID("B"), L)); break; case 1: obs.reset(new Xdiff(PointID("A"), PointID("B"), L)); break;
    case 2: obs.reset(new Ydiff(PointID("A"), PointID("B"), L)); break; case 3: obs.reset(new Zdiff(PointID("A"), PointID("B"), L)); break;
    case 4: obs.reset(new X(PointID("A"), L)); break; case 5: obs.reset(new Y(PointID("A"), L)); break; default: obs.reset(new Z(PointID("A"), L)); break; }
  LocalLinearization ll(PD, 10); obs->accept(&ll); Emitted e = emit(ll);
  std::string tag = std::string(names[type]) + " " + std::to_string(sa) + std::to_string(sb);
  const LocalPoint& a = PD[PointID("A")]; const LocalPoint& b = PD[PointID("B")];
  auto comp = [&](const P3& p, char c) { return c == 'x' ? p.x : c == 'y' ? p.y : p.z; };
  char c = (type == 0 || type == 3 || type == 6) ? 'z' : (type == 1 || type == 4) ? 'x' : 'y';
  auto idx = [&](const LocalPoint& p) { return c == 'x' ? p.index_x() : c == 'y' ? p.index_y() : p.index_z(); };
  auto isfree = [&](const LocalPoint& p) { return c == 'z' ? p.free_z() : p.free_xy(); };
  if (type <= 3) {
    sx::check_eq(e.rhs, (L - (comp(B, c) - comp(A, c))) * sx::rat(1000), tag + " rhs");
    int expected = (isfree(a) ? 1 : 0) + (isfree(b) ? 1 : 0); sx::check_true(e.size == expected, tag + " number of coefficients", "");
    if (isfree(a)) sx::check_eq(coef(e, idx(a)), sx::rat(-1), tag + " d/d(from)"); if (isfree(b)) sx::check_eq(coef(e, idx(b)), sx::rat(1), tag + " d/d(to)");
    if (isfree(a) && isfree(b)) sx::check_true(idx(a) != idx(b) && idx(a) > 0 && idx(b) > 0, tag + " distinct indices", "");
  } else {
    sx::check_eq(e.rhs, (L - comp(A, c)) * sx::rat(1000), tag + " rhs");
    sx::check_true(e.size == (isfree(a) ? 1 : 0), tag + " number of coefficients", ""); if (isfree(a)) sx::check_eq(coef(e, idx(a)), sx::rat(1), tag + " d/d(point)");
  }
  sx::reached("lin-linear");
}

static void gen_cases(const sx::Options& opt, std::vector<sx::Case>& cases) {
  set_gama_language(en);
  bool th = opt.tier == "thorough";
  auto add = [&](const std::string& n, std::function<void()> f) { cases.push_back({n, "LocalLinearization", f}); };
  for (int sa = 0; sa < 3; sa++) for (int sb = 0; sb < 3; sb++) {
    if (!th && (sa == 2 || sb == 2) && sa != sb) continue;
    add("lin/distance/" + std::to_string(sa) + std::to_string(sb), [sa, sb] { case_distance(sa, sb); });
    add("lin/direction/" + std::to_string(sa) + std::to_string(sb), [sa, sb] { case_direction(sa, sb, false); });
    add("lin/azimuth/" + std::to_string(sa) + std::to_string(sb), [sa, sb] { case_direction(sa, sb, true); });
    for (int t = 0; t < 7; t++) add("lin/linear" + std::to_string(t) + "/" + std::to_string(sa) + std::to_string(sb), [t, sa, sb] { case_linear(t, sa, sb); });
  }
  for (int sa = 0; sa < 2; sa++) for (int s1 = 0; s1 < 2; s1++) for (int s2 = 0; s2 < 2; s2++) add("lin/angle/" + std::to_string(sa) + std::to_string(s1) + std::to_string(s2), [sa, s1, s2] { case_angle(sa, s1, s2); });
  for (int m = 0; m < 16; m++) { int sa = m & 1, za = (m >> 1) & 1, sb = (m >> 2) & 1, zb = (m >> 3) & 1; if (!th && m % 3 != 0 && m != 15) continue;
    add("lin/sdistance/" + std::to_string(m), [=] { case_sdistance(sa, za, sb, zb); }); add("lin/zangle/" + std::to_string(m), [=] { case_zangle(sa, za, sb, zb); }); }
}
int main(int argc, char** argv) { return sx::run_main(argc, argv, "lin", gen_cases); }
