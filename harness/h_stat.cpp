// Harness "stat" (C17, partial): the algebraic skeleton of gnu_gama/statan.cpp.
//
// The text of statan.cpp is regenerated into build/gen/statan_real.inc on every build (symx/gen_statan_real.py): the
// real functions in namespace GNU_gama_real, with calls of Normal / NormalDistribution going through the dispatchers
// below and an observer at the exit tests of the two unbounded loops of NormalDistribution.  What is decided here
// (all by the solver / the exact normal form, for every probability or argument inside the stated ranges):
//   * symmetry: Normal(1-p) = -Normal(p), Student(1-p,N) = -Student(p,N), Student(1/2,N) = 0
//   * Student for N = 2 is the exact quantile (t^2 2p(1-p) = (1-2p)^2, sign), strictly decreasing in p, finite on (0,1);
//     for N = 1 it is cot(pi p)
//   * Chi_square(p,1) = Normal(p/2)^2, Chi_square(p,2) = -2 log p
//   * Chi_square(p,n), n >= 3, as a function of the normal quantile t = Normal(p) (contract: an arbitrary value in
//     [-3.3, 3.3]): increasing inside every cell of the polynomial selection n < 2+int(4|t|) (derivative > 0 for all t of
//     the cell) and not decreasing across the switch of polynomials
//   * Normal(p) = the 4th-order inverse Taylor step of the distribution function at the rational first guess
//     (contract for NormalDistribution: uninterpreted Phi, phi with 0 < Phi < 1, phi > 0)
//   * NormalDistribution: the first K partial sums of the series branch equal the Taylor partial sums of
//     Phi(x) - 1/2 = phi(x) sum x^(2j+1)/(2j+1)!!, the first K iterates of the other branch equal the odd convergents
//     of the continued fraction of Mills' ratio, for all x of the branch
// Outside: the accuracy of any of these against the true transcendental quantiles (L4).
#include "sx.h"
#include <gnu_gama/radian.h>
#include <cfloat>
#include <cmath>
#include <iostream>
#include <algorithm>
#include <vector>
#include <string>

using sx::Real;

namespace {
struct NdStop {};
int nd_mode = 0;          // 0: contract (uninterpreted Phi, phi), 1: the real body
int normal_mode = 0;      // 0: the real body, 1: next value of normal_queue (arbitrary value), 2: uninterpreted function of the argument
int nd_limit = 0;
std::vector<Real> normal_queue; size_t normal_pos = 0;
struct SeriesIt { Real D, y, r; };
struct CfIt { Real p1, q1, p2, q2, D; };
std::vector<SeriesIt> tr_series; std::vector<CfIt> tr_cf;
void reset_env() { nd_mode = 0; normal_mode = 0; nd_limit = 0; normal_queue.clear(); normal_pos = 0; tr_series.clear(); tr_cf.clear(); }
}
static bool sx_nd_series(double D, double y, double r) {
  if (nd_limit <= 0) return false;
  tr_series.push_back({D, y, r});
  if ((int)tr_series.size() >= nd_limit) throw NdStop();
  return false;
}
static bool sx_nd_cf(double p1, double q1, double p2, double q2, double D) {
  if (nd_limit <= 0) return false;
  tr_cf.push_back({p1, q1, p2, q2, D});
  if ((int)tr_cf.size() >= nd_limit) throw NdStop();
  return false;
}

#include "statan_real.inc"

namespace GNU_gama_real {
void NormalDistribution(double x, double& D, double& f) {
#ifndef SX_REPLAY
  if (nd_mode == 0) {
    D = sx::uf("Phi", {x}); f = sx::uf("phi", {x});
    sx::assume_pos(f); sx::assume_pos(D); sx::assume_lt(D, Real(1));
    return;
  }
#endif
  NormalDistribution_body(x, D, f);
}
double Normal(double a) {
  if (normal_mode == 1) { if (normal_pos >= normal_queue.size()) throw sx::Abort{sx::Abort::Unsupported, "normal contract: queue exhausted"}; return normal_queue[normal_pos++]; }
#ifndef SX_REPLAY
  if (normal_mode == 2) return sx::uf("Normal", {a});
#endif
  return Normal_body(a);
}
}
namespace GR = GNU_gama_real;

static Real open_unit(const char* name, const mpq_class& lo, const mpq_class& hi, bool lo_open, bool hi_open) {
  Real p = sx::input(name); sx::assume_range(p, lo, hi);
  if (lo_open) sx::assume_lt(sx::constant(lo), p);
  if (hi_open) sx::assume_lt(p, sx::constant(hi));
  return p;
}
static const mpq_class HALF(1, 2), TINY("1/1000000000000");

// ------------------------------------------------------------------------------------------ Normal
static void case_normal_symmetry() {
  reset_env();
  Real p = open_unit("p", TINY, HALF, false, true);
  Real a = GR::Normal(p), b = GR::Normal(Real(1) - p);
  sx::check_eq(b, -a, "Normal(1-p) = -Normal(p)");
  sx::reached("stat-normal");
}
static void case_normal_correction() {
  reset_env();
  Real p = open_unit("p", TINY, HALF, false, true);
  Real got = GR::Normal(p);
  // first guess: rational approximation in z0 = sqrt(-2 ln p); then one step of the 4th-order Taylor inversion of the
  // distribution function: with u = (Q(z) - p)/phi(z), Q = 1 - Phi,
  //   x = z + u + z u^2/2 + (2 z^2 + 1) u^3/6 + (6 z^3 + 7 z) u^4/24          (derivatives of the inverse of Q at z)
  Real z0 = sqrt(Real(-2) * log(p));
  Real z = z0 - ((Real(7.47395) * z0 + Real(494.877)) * z0 + Real(1637.72)) / (((z0 + Real(117.9407)) * z0 + Real(908.401)) * z0 + Real(659.935));
  Real F, G; GR::NormalDistribution(z, F, G);
  Real u = ((Real(1) - F) - p) / G;
  Real want = z + u + z * u * u / Real(2) + (Real(2) * z * z + Real(1)) * u * u * u / Real(6) + (Real(6) * z * z * z + Real(7) * z) * u * u * u * u / Real(24);
  sx::policy().replay_tol = 1e-7;
  sx::check_eq(got, want, "Normal(p) = first guess + 4th-order inverse Taylor step of the distribution function");
  sx::reached("stat-normal-step");
}

// ------------------------------------------------------------------------------------------ Student
static void case_student_n2(int part) {
  reset_env();
  sx::policy().div0_is_violation = true; sx::policy().sqrtneg_is_violation = true;
  if (part == 0) {          // exact quantile on (0, 1/2)
    Real p = open_unit("p", 0, HALF, true, true);
    Real s = GR::Student(p, 2);
    sx::check_ge0(s, "Student(p,2) >= 0 for p < 1/2");
    sx::check_eq(s * s * Real(2) * p * (Real(1) - p), (Real(1) - Real(2) * p) * (Real(1) - Real(2) * p), "Student(p,2)^2 2p(1-p) = (1-2p)^2");
  } else if (part == 1) {   // symmetry, centre
    Real p = open_unit("p", 0, HALF, true, true);
    sx::check_eq(GR::Student(Real(1) - p, 2), -GR::Student(p, 2), "Student(1-p,2) = -Student(p,2)");
    sx::check_zero(GR::Student(sx::rat(1, 2), 2), "Student(1/2,2) = 0");
  } else {                  // strictly decreasing on (0, 1)
    Real p1 = open_unit("p1", 0, 1, true, true), p2 = open_unit("p2", 0, 1, true, true);
    sx::assume_lt(p1, p2);
    Real s1 = GR::Student(p1, 2), s2 = GR::Student(p2, 2);
    sx::check_lt(s2, s1, "Student(.,2) strictly decreasing");
  }
  sx::reached("stat-student2");
}
static void case_student_n1() {
  reset_env();
  Real p = open_unit("p", 0, HALF, true, true);
  Real s = GR::Student(p, 1);
  Real a = Real(M_PI) * p;
  sx::check_eq(s * sin(a), cos(a), "Student(p,1) = cot(pi p)");
  sx::check_eq(GR::Student(Real(1) - p, 1), -s, "Student(1-p,1) = -Student(p,1)");
  sx::check_zero(GR::Student(sx::rat(1, 2), 1), "Student(1/2,1) = 0");
  sx::reached("stat-student1");
}
static void case_student_symmetry(int N) {
  reset_env(); normal_mode = 2;
  Real p = open_unit("p", mpq_class(1, 100000), HALF, false, true);
  Real s = GR::Student(p, N);
  sx::check_eq(GR::Student(Real(1) - p, N), -s, "Student(1-p,N) = -Student(p,N)");
  sx::check_zero(GR::Student(sx::rat(1, 2), N), "Student(1/2,N) = 0");
  sx::reached("stat-student-sym");
}

// ------------------------------------------------------------------------------------------ Chi-square
static void case_chi_small() {
  reset_env(); normal_mode = 2;
  Real p = open_unit("p", TINY, 1, false, true);
  Real t = GR::Normal(Real(0.5) * p);
  sx::check_eq(GR::Chi_square(p, 1), t * t, "Chi_square(p,1) = Normal(p/2)^2");
  sx::check_eq(GR::Chi_square(p, 2), Real(-2) * log(p), "Chi_square(p,2) = -2 ln p");
  sx::reached("stat-chi-small");
}
static const char* TMAX = "33/10";
static void case_chi_monotone(int n) {
  reset_env(); normal_mode = 1;
  Real t = sx::input("t"); sx::assume_range(t, -mpq_class(TMAX), mpq_class(TMAX));
  normal_queue = {t};
  Real p = sx::rat(1, 4);                     // the probability reaches Chi_square only through Normal(p) for n >= 3
  Real C = GR::Chi_square(p, n);
  sx::check_lt(Real(0), C, "Chi_square > 0");
#ifndef SX_REPLAY
  Real dC = sx::derivative(C, t);
  sx::check_lt(Real(0), dC, "d Chi_square / d Normal(p) > 0 inside the cell of the polynomial selection");
#else
  { double h = 1e-6; normal_queue = {t + h, t - h}; normal_pos = 0;
    double c1 = GR::Chi_square(p, n), c0 = GR::Chi_square(p, n);
    sx::policy().replay_tol = 1e-12;
    sx::check_lt(0.0, (c1 - c0) / (2 * h), "d Chi_square / d Normal(p) > 0 inside the cell of the polynomial selection"); }
#endif
  sx::reached("stat-chi-mono");
}
static void case_chi_jump(int n, int side) {       // the switch of polynomials at |t| = (n-1)/4
  reset_env(); normal_mode = 1;
  mpq_class tau(n - 1, 4), w(1, 8);
  Real t1 = sx::input("t1"), t2 = sx::input("t2");
  mpq_class at;
  if (side > 0) { sx::assume_range(t1, tau - w, tau); sx::assume_lt(t1, sx::constant(tau)); sx::assume_range(t2, tau, tau + w); at = tau; }
  else          { sx::assume_range(t1, -tau - w, -tau); sx::assume_range(t2, -tau, -tau + w); sx::assume_lt(sx::constant(-tau), t2); at = -tau; }
  if (!sx::symbolic_mode()) {                // the witness of a failing boundary comparison: the two sides of the switch
    sx::f64 a = at.get_d();
    if (side > 0) { t1 = Real(a - 1e-9); t2 = Real(a); } else { t1 = Real(a); t2 = Real(a + 1e-9); }
  }
  normal_queue = {t1, t2};
  Real p = sx::rat(1, 4);
  Real C1 = GR::Chi_square(p, n), C2 = GR::Chi_square(p, n);
  sx::policy().replay_tol = 1e-7;
#ifndef SX_REPLAY
  C1 = sx::substitute(C1, t1, sx::constant(at)); C2 = sx::substitute(C2, t2, sx::constant(at));
#endif
  sx::check_le(C1, C2, "Chi_square does not decrease across the switch of polynomials (t1 < t2 on the two sides of |t| = (n-1)/4)");
  sx::reached("stat-chi-jump");
}

// ------------------------------------------------------------------------------------------ NormalDistribution
static void case_nd_series(int sign, int K) {
  reset_env(); nd_mode = 1; nd_limit = K;
  Real x = sx::input("x");
  if (sign > 0) { sx::assume_range(x, 0, mpq_class(7, 2)); sx::assume_lt(Real(0), x); }
  else          { sx::assume_range(x, mpq_class(-232, 100), 0); sx::assume_lt(x, Real(0)); }
  Real D, f; bool stopped = false;
  try { GR::NormalDistribution(x, D, f); } catch (NdStop&) { stopped = true; }
  sx::check_true(stopped && (int)tr_series.size() == K, "series branch taken for 0 < x <= 3.5 / -2.32 <= x < 0", std::to_string(tr_series.size()));
  Real b = sign > 0 ? x : -x;
  Real phi = Real(0.3989422804014327) * exp(Real(-0.5) * (x * x));
  Real term = phi * b, sum = term;             // j = 0
  sx::policy().replay_tol = 1e-12;
  for (int k = 1; k <= (int)tr_series.size(); k++) {
    term = term * (x * x) / Real(2 * k + 1); sum = sum + term;
    sx::check_eq(tr_series[k - 1].D, sum, "series: partial sum " + std::to_string(k) + " = phi(x) sum_{j<=k} |x|^(2j+1)/(2j+1)!!");
    sx::check_lt(Real(0), tr_series[k - 1].y, "series: terms positive");
  }
  sx::reached("stat-nd-series");
}
static void case_nd_zero() {
  reset_env(); nd_mode = 1;
  Real D, f; GR::NormalDistribution(Real(0), D, f);
  sx::check_eq(D, sx::rat(1, 2), "NormalDistribution(0): D = 1/2"); sx::check_eq(f, Real(0.3989422804014327), "NormalDistribution(0): density 1/sqrt(2 pi)");
  sx::reached("stat-nd-zero");
}
static void case_nd_cf(int sign, int K) {
  reset_env(); nd_mode = 1; nd_limit = K;
  Real x = sx::input("x");
  if (sign > 0) { sx::assume_range(x, mpq_class(7, 2), 20); sx::assume_lt(sx::constant(mpq_class(7, 2)), x); }
  else          { sx::assume_range(x, -20, mpq_class(-232, 100)); sx::assume_lt(x, sx::constant(mpq_class(-232, 100))); }
  Real D, f; bool stopped = false;
  try { GR::NormalDistribution(x, D, f); } catch (NdStop&) { stopped = true; }
  sx::check_true(stopped && (int)tr_cf.size() == K, "continued-fraction branch taken for x > 3.5 / x < -2.32", std::to_string(tr_cf.size()));
  Real b = sign > 0 ? x : -x;
  Real phi = Real(0.3989422804014327) * exp(Real(-0.5) * (x * x));
  // convergents A_m/B_m of  1/(b + 1/(b + 2/(b + 3/(b + ...))))  (Mills' ratio Q(b)/phi(b)); the loop delivers m = 5, 7, 9, ...
  std::vector<Real> A = {Real(0), Real(1)}, B = {Real(1), b};        // m = 0, 1
  auto extend = [&](int m) { while ((int)A.size() <= m) { int j = (int)A.size(); A.push_back(b * A[j - 1] + Real(j - 1) * A[j - 2]); B.push_back(b * B[j - 1] + Real(j - 1) * B[j - 2]); } };
  sx::policy().replay_tol = 1e-9;
  for (int k = 1; k <= (int)tr_cf.size(); k++) {
    int m = 2 * k + 3; extend(m);
    const CfIt& it = tr_cf[k - 1];
    // cross-multiplied: p2/q2 = phi A_m/B_m   (replay: both sides scaled to order one)
    if (sx::symbolic_mode()) sx::check_eq(it.p2 * B[m], phi * A[m] * it.q2, "continued fraction: iterate " + std::to_string(k) + " = convergent " + std::to_string(m) + " of Mills' ratio");
    else sx::check_eq(it.p2 / it.q2 / phi * b, A[m] / B[m] * b, "continued fraction: iterate " + std::to_string(k) + " = convergent " + std::to_string(m) + " of Mills' ratio");
    Real w = it.p2 / it.q2;
    sx::check_eq(it.D, sign > 0 ? Real(1) - w : w, "continued fraction: D = 1 - tail (x > 0), tail (x < 0)");
  }
  sx::reached("stat-nd-cf");
}

static void gen_cases(const sx::Options& opt, std::vector<sx::Case>& cases) {
  bool th = opt.tier == "thorough";
  cases.push_back({"stat/normal/symmetry", "normal", [] { case_normal_symmetry(); }});
  cases.push_back({"stat/normal/correction-step", "normal", [] { case_normal_correction(); }});
  for (int part = 0; part < 3; part++) cases.push_back({"stat/student/n2/" + std::to_string(part), "student", [part] { case_student_n2(part); }});
  cases.push_back({"stat/student/n1", "student", [] { case_student_n1(); }});
  std::vector<int> Ns = {3, 4, 5, 9, 30};
  if (th) for (int N : {6, 7, 8, 10, 12, 20, 60, 120, 500, 1000, 5000}) Ns.push_back(N);
  for (int N : Ns) cases.push_back({"stat/student/symmetry/N" + std::to_string(N), "student", [N] { case_student_symmetry(N); }});
  cases.push_back({"stat/chi/n1-n2", "chi-square", [] { case_chi_small(); }});
  int nmax = th ? 200 : 40;
  for (int n = 3; n <= nmax; n++) {
    if (!th && n > 16 && n % 6) continue;
    cases.push_back({"stat/chi/monotone/n" + std::to_string(n), "chi-square", [n] { case_chi_monotone(n); }});
  }
  for (int n = 3; n <= 14; n++) for (int side = -1; side <= 1; side += 2)
    cases.push_back({"stat/chi/switch/n" + std::to_string(n) + (side > 0 ? "/upper" : "/lower"), "chi-square", [n, side] { case_chi_jump(n, side); }});
  int K1 = th ? 12 : 6, K2 = th ? 7 : 4;
  cases.push_back({"stat/nd/zero", "normal distribution", [] { case_nd_zero(); }});
  for (int sign = -1; sign <= 1; sign += 2) {
    cases.push_back({std::string("stat/nd/series/") + (sign > 0 ? "pos" : "neg"), "normal distribution", [sign, K1] { case_nd_series(sign, K1); }});
    cases.push_back({std::string("stat/nd/continued-fraction/") + (sign > 0 ? "pos" : "neg"), "normal distribution", [sign, K2] { case_nd_cf(sign, K2); }});
  }
}
int main(int argc, char** argv) { return sx::run_main(argc, argv, "stat", gen_cases); }
