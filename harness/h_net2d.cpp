// Harness "net2d": plane networks of directions, distances and angles through the real GKFparser / Acord2 / LocalNetwork,
// on point sets whose mutual distances are all rational (rectangle 400 x 300 m and its centre: sides 300, 400, diagonals 500,
// half diagonals 250).  There sin and cos of every bearing are rational, so the linearised system has an exact rational design
// matrix; the bearings themselves are angle atoms of the engine that cancel in "observed - computed" because the observed
// values are built as  true value + symbolic error.  The first linearised adjustment (no re-linearisation) is compared with
// the exact weighted, datum-constrained least-squares solution computed from the specification.
#include "netcommon.h"
#include <fstream>
#include <typeinfo>
#include <gnu_gama/xml/localnetwork_adjustment_results.h>
#include <gnu_gama/statan.h>

using namespace N;
static std::string g_prop;
static bool on(const char* p) { return g_prop.empty() || g_prop == p; }
static const char* ALGS[] = {"envelope", "cholesky", "gso"};

struct P2 { std::string id; Q x, y; char st; bool give = true; };      // st: f fixed, a free, c constrained
struct O2 { int kind; int to, to2; Q stdev; };                            // kind 0 direction, 1 distance, 2 angle (bs = to, fs = to2)
struct St2 { int from; Q zero; std::vector<O2> obs; };                    // one <obs from=...> cluster; zero = true orientation of its direction set (rad)
struct Spec2 { std::string name; std::vector<P2> pts; std::vector<St2> st; std::string axes, angles; Q sigma_apr = 10; int ysign = 1; };

static Real PI() { return Real(M_PI); }
static Real two_pi() { return Real(2 * M_PI); }
static Real to_cc(Real rad) { return rad * sx::rat(2000000) / Real(M_PI); }     // X*R2CC expands to X*200.0E4/M_PI
static mpq_class ANGQ() { return mpq_class((sx::f64)(10 * 200.0 / M_PI)); }   // 10*R2G as the compiler folds it

// bearing of the sight i -> j in [0, 2pi) as the engine's angle atom (the same atom gama's bearing() produces)
static Real bearing(const Spec2& s, int i, int j) {
  Real dy = sx::constant((s.pts[j].y - s.pts[i].y) * s.ysign), dx = sx::constant(s.pts[j].x - s.pts[i].x);
  Real b = atan2(dy, dx);
  if (sx::numeric(b) < 0) b = b + two_pi();
  return b;
}
static Real norm2pi(Real a) { while (sx::numeric(a) < 0) a = a + two_pi(); while (sx::numeric(a) >= sx::numeric(two_pi())) a = a - two_pi(); return a; }
static Q dist2(const Spec2& s, int i, int j) { Q dx = s.pts[j].x - s.pts[i].x, dy = s.pts[j].y - s.pts[i].y; return dx * dx + dy * dy; }
static Q dist(const Spec2& s, int i, int j) { Q d2 = dist2(s, i, j); mpz_class n = d2.get_num(), d = d2.get_den(), rn = sqrt(n), rd = sqrt(d); if (rn * rn != n || rd * rd != d) throw std::logic_error("distance is not rational"); return Q(rn, rd); }

static std::string gon(Real rad) { std::ostringstream o; o.setf(std::ios::fixed); o.precision(6); o << sx::numeric(rad) * 200 / M_PI; return o.str(); }
static std::string gkf2d(const Spec2& s, const std::vector<Real>& vals) {
  std::ostringstream o;
  o << "<?xml version=\"1.0\" ?>\n<gama-local xmlns=\"http://www.gnu.org/software/gama/gama-local\">\n<network";
  if (!s.axes.empty()) o << " axes-xy=\"" << s.axes << "\""; if (!s.angles.empty()) o << " angles=\"" << s.angles << "\"";
  o << ">\n<description>" << s.name << "</description>\n<parameters sigma-apr=\"" << qstr(s.sigma_apr) << "\" conf-pr=\"0.95\" tol-abs=\"1000\" sigma-act=\"apriori\" />\n<points-observations>\n";
  for (auto& p : s.pts) { o << "<point id=\"" << p.id << "\""; if (p.give) o << " x=\"" << qstr(p.x) << "\" y=\"" << qstr(p.y) << "\""; o << (p.st == 'f' ? " fix=\"xy\"" : p.st == 'a' ? " adj=\"xy\"" : " adj=\"XY\"") << " />\n"; }
  size_t k = 0;
  for (auto& st : s.st) { o << "<obs from=\"" << s.pts[st.from].id << "\">\n";
    for (auto& ob : st.obs) { sx::f64 v = sx::numeric0(vals[k++]);
      if (ob.kind == 0) o << "<direction to=\"" << s.pts[ob.to].id << "\" val=\"" << gon(Real(v)) << "\" stdev=\"" << qstr(ob.stdev) << "\" />\n";
      else if (ob.kind == 1) { std::ostringstream d; d.setf(std::ios::fixed); d.precision(4); d << v; o << "<distance to=\"" << s.pts[ob.to].id << "\" val=\"" << d.str() << "\" stdev=\"" << qstr(ob.stdev) << "\" />\n"; }
      else o << "<angle bs=\"" << s.pts[ob.to].id << "\" fs=\"" << s.pts[ob.to2].id << "\" val=\"" << gon(Real(v)) << "\" stdev=\"" << qstr(ob.stdev) << "\" />\n"; }
    o << "</obs>\n"; }
  o << "</points-observations>\n</network>\n</gama-local>\n";
  return o.str();
}

struct B2 { Spec2 spec; Net net; std::vector<Observation*> obs; std::vector<Real> err, val; Oracle orc; std::vector<int> S; std::vector<StandPoint*> sps; std::vector<int> passive; /* observations excluded by the user */ };

// observed values: true value + error
static std::vector<Real> true_values(const Spec2& s, const std::vector<Real>& err, const std::vector<Real>* circle_turn = nullptr) {
  std::vector<Real> v; size_t k = 0, si = 0;
  for (auto& st : s.st) { Real turn = circle_turn ? (*circle_turn)[si] : sx::rat(0); si++;
    for (auto& ob : st.obs) {
      if (ob.kind == 0) { Real x = norm2pi(bearing(s, st.from, ob.to) - sx::constant(st.zero)) + turn;
        if (circle_turn && !sx::is_const(turn)) { while (x < sx::rat(0)) x = x + two_pi(); while (x >= two_pi()) x = x - two_pi(); }      // a circle reading lies in [0, 2pi): the solver splits the turn at every wrap
        v.push_back(x + err[k]); }
      else if (ob.kind == 1) v.push_back(sx::constant(dist(s, st.from, ob.to)) + err[k]);
      else v.push_back(norm2pi(bearing(s, st.from, ob.to2) - bearing(s, st.from, ob.to)) + err[k]);
      k++; } }
  return v;
}
static bool g_reverse_order = false;
static std::vector<Real> sym_errors(const Spec2& s, const std::string& prefix = "e") {
  std::vector<Real> e; size_t k = 0;
  for (auto& st : s.st) { int last_dir = -1;
    for (auto& ob : st.obs) { Real x = sx::input(prefix + std::to_string(++k)); if (ob.kind == 1) sx::assume_range(x, Q(-1, 100), Q(1, 100)); else sx::assume_range(x, Q(-1, 10000), Q(1, 10000));
      // the errors of one direction set are taken in increasing (thorough: also decreasing) order: gama sorts the preliminary orientations
      // of a set to take their median, and every order would be a separate path; the order only selects the approximate orientation
      if (ob.kind == 0) { if (last_dir >= 0) { if (g_reverse_order) sx::assume_lt(x, e[last_dir]); else sx::assume_lt(e[last_dir], x); } last_dir = (int)e.size(); }
      e.push_back(x); } }
  return e;
}

static bool build2d(B2& b, const Spec2& spec, const std::vector<Real>& err, const std::string& alg, const std::vector<Real>* circle_turn = nullptr) {
  b.spec = spec; b.err = err; b.val = true_values(spec, err, circle_turn);
  std::string text = gkf2d(spec, b.val);
  if (const char* d = getenv("SX_DUMP_GKF")) { static int n = 0; std::ofstream f(std::string(d) + "." + std::to_string(++n) + ".gkf"); f.precision(17); f << text; f << "<!-- values (internal units):"; for (auto& v : b.val) f << " " << sx::numeric0(v); f << " -->\n"; }
  if (!b.net.parse(text)) { sx::fail("generated input rejected by the parser", b.net.parse_error + " line " + std::to_string(b.net.parse_line)); return false; }
  b.obs = b.net.all_obs();
  if (b.obs.size() != b.val.size()) { sx::fail("parser produced a different number of observations", std::to_string(b.obs.size())); return false; }
  for (size_t k = 0; k < b.obs.size(); k++) b.obs[k]->set_value(b.val[k]);
  for (int k : b.passive) b.obs[k]->set_passive();
  for (auto c = b.net.IS->OD.clusters.begin(); c != b.net.IS->OD.clusters.end(); ++c) b.sps.push_back(dynamic_cast<StandPoint*>(*c));
  b.net.prepare(alg, true);
  return true;
}

// exact oracle of the linearised problem at the given coordinates and at gama's own approximate orientations
static void make_oracle2d(B2& b, const std::string& tag) {
  const Spec2& s = b.spec; Oracle& o = b.orc; LocalNetwork* IS = b.net.IS.get();
  IS->project_equations();                        // approximate orientations are set here at the latest
  o.unk.clear();
  auto freept = [&](int i) { return s.pts[i].st != 'f'; };
  auto touch = [&](const std::string& id, char t) { if (o.col(id, t) < 0) o.unk.push_back({id, t}); };
  auto is_passive0 = [&](int k) { return std::find(b.passive.begin(), b.passive.end(), k) != b.passive.end(); };
  size_t si = 0; int k0 = -1; for (auto& st : s.st) { bool dirs = false;
    for (auto& ob : st.obs) { k0++; if (ob.kind == 0 && !is_passive0(k0)) dirs = true;      // a set all of whose directions are left out has no orientation unknown
      for (int p : {st.from, ob.to, ob.kind == 2 ? ob.to2 : ob.to}) if (freept(p)) { touch(s.pts[p].id, 'X'); touch(s.pts[p].id, 'Y'); } }
    if (dirs) touch(s.pts[st.from].id, 'R'); si++; }
  auto is_passive = [&](int k) { return std::find(b.passive.begin(), b.passive.end(), k) != b.passive.end(); };
  int m = (int)b.obs.size() - (int)b.passive.size(), n = (int)o.unk.size();
  o.A = QMat(m, n); o.l.assign(m, sx::rat(0)); o.P = QMat(m, m);
  mpq_class K = ANGQ();
  auto brg = [&](int r, int i, int j, Q sign) {            // d(bearing i->j): target -dy/d^2, dx/d^2 ; station opposite; times K
    Q dx = s.pts[j].x - s.pts[i].x, dy = (s.pts[j].y - s.pts[i].y) * s.ysign, d2 = dx * dx + dy * dy;
    int c;
    if ((c = o.col(s.pts[j].id, 'X')) >= 0 && freept(j)) o.A(r, c) += sign * K * (-dy) / d2; if ((c = o.col(s.pts[j].id, 'Y')) >= 0 && freept(j)) o.A(r, c) += sign * K * dx / d2;
    if ((c = o.col(s.pts[i].id, 'X')) >= 0 && freept(i)) o.A(r, c) += sign * K * dy / d2;    if ((c = o.col(s.pts[i].id, 'Y')) >= 0 && freept(i)) o.A(r, c) += sign * K * (-dx) / d2; };
  int r = 0, kk = -1; si = 0;
  for (auto& st : s.st) { StandPoint* sp = b.sps[si];
    for (auto& ob : st.obs) { kk++; if (is_passive(kk)) continue;
      o.P(r, r) = (s.sigma_apr / ob.stdev) * (s.sigma_apr / ob.stdev);
      if (ob.kind == 0) {
        brg(r, st.from, ob.to, 1); o.A(r, o.col(s.pts[st.from].id, 'R')) = -1;
        Real o0 = sp->orientation();
        Real dz = o0 - sx::constant(st.zero);             // approximate minus true orientation, up to a full turn
        { sx::f64 k = ::round(sx::numeric0(dz) / (2 * M_PI)); if (k != 0) dz = dz - Real(k) * two_pi(); }
        sx::check_le(dz, sx::rat(1, 100), tag + " approximate orientation of " + s.pts[st.from].id + " is near the true one"); sx::check_le(-dz, sx::rat(1, 100), tag + " approximate orientation of " + s.pts[st.from].id + " is near the true one");
        Real turned = b.val[kk] - (norm2pi(bearing(s, st.from, ob.to) - sx::constant(st.zero)) + b.err[kk]);      // the circle turn applied to this set (0 unless a variant turns it)
        o.l[r] = to_cc(b.err[kk] + dz + turned);
      } else if (ob.kind == 1) {
        Q dx = s.pts[ob.to].x - s.pts[st.from].x, dy = (s.pts[ob.to].y - s.pts[st.from].y) * s.ysign, d = dist(s, st.from, ob.to); int c;
        if ((c = o.col(s.pts[ob.to].id, 'X')) >= 0 && freept(ob.to)) o.A(r, c) = dx / d; if ((c = o.col(s.pts[ob.to].id, 'Y')) >= 0 && freept(ob.to)) o.A(r, c) = dy / d;
        if ((c = o.col(s.pts[st.from].id, 'X')) >= 0 && freept(st.from)) o.A(r, c) = -dx / d; if ((c = o.col(s.pts[st.from].id, 'Y')) >= 0 && freept(st.from)) o.A(r, c) = -dy / d;
        o.l[r] = b.err[kk] * sx::rat(1000);
      } else { brg(r, st.from, ob.to2, 1); brg(r, st.from, ob.to, -1); o.l[r] = to_cc(b.err[kk]); }
      r++; }
    si++; }
  b.S.clear(); for (size_t c = 0; c < o.unk.size(); c++) { for (auto& p : s.pts) if (p.id == o.unk[c].first && p.st == 'c' && o.unk[c].second != 'R') b.S.push_back((int)c); }
  oracle_solve(o, b.S);
}

struct R2 { bool ok = false; std::string why; std::map<std::string, Real> x, adj; std::vector<Real> r, stdev_obs; Real vpv; int dof = 0, defect = 0, n = 0, m = 0; std::map<std::string, Real> qxx; };
static std::string uname(LocalNetwork* IS, int i) { return IS->unknown_pointid(i).str() + "." + IS->unknown_type(i); }
static R2 run2d(B2& b, bool cof) {
  R2 r; LocalNetwork* IS = b.net.IS.get();
  try {
    if (IS->huge_abs_terms()) IS->remove_huge_abs_terms();        // as gama-local's main() does before the adjustment
    int d = IS->null_space();
    try { if (IS->min_n() < d) throw MatVecException(GNU_gama::Exception::BadRegularization, "not enough constrained points"); IS->trans_VWV(); }
    catch (const MatVecException& vs) { if (vs.error() != GNU_gama::Exception::BadRegularization) throw; r.why = "network can not be adjusted"; return r; }
    const GNU_gama::local::Vec& x = IS->solve(); r.n = IS->unknowns_count(); r.m = IS->observations_count();
    for (int i = 1; i <= r.n; i++) { r.x[uname(IS, i)] = x(i); char t = IS->unknown_type(i); const LocalPoint& p = IS->PD[IS->unknown_pointid(i)];
      if (t == 'X') r.adj[uname(IS, i)] = p.x() + x(i) / sx::rat(1000); if (t == 'Y') r.adj[uname(IS, i)] = p.y() + x(i) / sx::rat(1000);
      if (t == 'R') r.adj[uname(IS, i)] = IS->unknown_standpoint(i)->orientation() + x(i) * Real(M_PI) / sx::rat(2000000); }
    const GNU_gama::local::Vec& v = IS->residuals(); for (int i = 1; i <= r.m; i++) { r.r.push_back(v(i)); if (cof) r.stdev_obs.push_back(IS->stdev_obs(i)); }
    r.vpv = IS->trans_VWV(); r.dof = IS->degrees_of_freedom(); r.defect = IS->null_space();
    if (cof) for (int i = 1; i <= r.n; i++) for (int j = 1; j <= r.n; j++) r.qxx[uname(IS, i) + "|" + uname(IS, j)] = IS->qxx(i, j);
    r.ok = true;
  } catch (const GNU_gama::local::Exception& e) { r.why = std::string("exception: ") + e.what(); }
    catch (const GNU_gama::Exception::matvec& e) { r.why = std::string("matvec exception: ") + e.what(); }
  return r;
}

// C01 / C02 / C03 / C05: gama's equations and solution against the oracle, all algorithms
static void case_oracle(const Spec2& spec) {
  std::vector<Real> err = sym_errors(spec);
  std::vector<R2> rs;
  for (int alg = 0; alg < 3; alg++) {
    B2 b; if (!build2d(b, spec, err, ALGS[alg])) return; std::string tag = std::string(ALGS[alg]);
    make_oracle2d(b, tag); Oracle& o = b.orc; LocalNetwork* IS = b.net.IS.get();
    if (!o.resolves) { sx::note("skip", "constraints do not resolve the defect"); return; }
    // the equations handed out
    GNU_gama::local::Mat A; GNU_gama::local::Vec rhs, w; IS->project_equations(A, rhs, w);
    sx::check_true(A.rows() == o.A.r && A.cols() == o.A.c, tag + " number of equations and unknowns", std::to_string(A.rows()) + "x" + std::to_string(A.cols()) + " vs " + std::to_string(o.A.r) + "x" + std::to_string(o.A.c));
    if (A.rows() != o.A.r || A.cols() != o.A.c) return;
    std::vector<int> cm(A.cols());
    for (int j = 1; j <= A.cols(); j++) { int c = o.col(IS->unknown_pointid(j).str(), IS->unknown_type(j)); sx::check_true(c >= 0, tag + " unknown is one of the expected ones", uname(IS, j)); if (c < 0) return; cm[j - 1] = c; }
    if (on("C05") || on("C01")) for (int i = 1; i <= A.rows(); i++) { sx::check_eq(rhs(i), o.l[i - 1], tag + " right-hand side of equation " + std::to_string(i)); sx::check_eq(w(i), sx::constant(o.P(i - 1, i - 1)), tag + " weight of equation " + std::to_string(i));
      for (int j = 1; j <= A.cols(); j++) sx::check_eq(A(i, j), sx::constant(o.A(i - 1, cm[j - 1])), tag + " coefficient " + std::to_string(i) + "," + uname(IS, j)); }
    R2 r = run2d(b, true); sx::check_true(r.ok, tag + " adjusted", r.why); if (!r.ok) return;
    if (on("C01")) { for (int j = 1; j <= r.n; j++) sx::check_eq(r.x[uname(IS, j)], o.x[cm[j - 1]], tag + " correction of " + uname(IS, j));
      for (int i = 0; i < r.m; i++) sx::check_eq(r.r[i], o.r[i], tag + " residual " + std::to_string(i + 1));
      sx::check_eq(r.vpv, o.vpv, tag + " sum of squares"); sx::check_true(r.dof == o.dof && r.defect == o.defect, tag + " degrees of freedom and defect", std::to_string(r.dof) + "/" + std::to_string(r.defect) + " vs " + std::to_string(o.dof) + "/" + std::to_string(o.defect)); }
    if (on("C03")) for (int i = 1; i <= r.n; i++) for (int j = 1; j <= r.n; j++) sx::check_eq(r.qxx[uname(IS, i) + "|" + uname(IS, j)], sx::constant(o.Qx(cm[i - 1], cm[j - 1])), tag + " q_xx " + uname(IS, i) + "," + uname(IS, j));
    rs.push_back(r);
  }
  if (on("C02")) for (size_t a = 1; a < rs.size(); a++) { std::string t = std::string(ALGS[a]) + " vs envelope";
    for (auto& kv : rs[0].x) sx::check_eq(rs[a].x[kv.first], kv.second, t + " correction of " + kv.first);
    for (size_t i = 0; i < rs[0].r.size(); i++) { sx::check_eq(rs[a].r[i], rs[0].r[i], t + " residual " + std::to_string(i + 1)); sx::check_eq(rs[a].stdev_obs[i], rs[0].stdev_obs[i], t + " stdev of adjusted observation " + std::to_string(i + 1)); }
    sx::check_eq(rs[a].vpv, rs[0].vpv, t + " sum of squares"); sx::check_true(rs[a].dof == rs[0].dof && rs[a].defect == rs[0].defect, t + " dof, defect", "");
    for (auto& kv : rs[0].qxx) sx::check_eq(rs[a].qxx[kv.first], kv.second, t + " q_xx " + kv.first); }
  sx::reached("net2d-oracle");
}

// C06: consistent observations: zero corrections and residuals; also with the coordinates of the free points left to Acord2
static void case_consistent(const Spec2& spec0, int alg, bool omit) {
  Spec2 spec = spec0; if (omit) for (auto& p : spec.pts) if (p.st == 'a') p.give = false;
  std::vector<Real> err; for (auto& st : spec.st) for (size_t i = 0; i < st.obs.size(); i++) err.push_back(sx::rat(0));
  B2 b; if (!build2d(b, spec, err, ALGS[alg])) return; std::string tag = std::string(ALGS[alg]) + (omit ? " (approximate coordinates by Acord2)" : "");
  LocalNetwork* IS = b.net.IS.get();
  for (auto& p : spec.pts) { const LocalPoint& lp = IS->PD[PointID(p.id)]; sx::check_true(lp.test_xy(), tag + " point " + p.id + " has coordinates", ""); if (!lp.test_xy()) return;
    if (omit && p.st == 'a') { Real dx = lp.x() - sx::constant(p.x), dy = lp.y() - sx::constant(p.y * spec.ysign);
      for (Real d : {dx, dy}) { sx::check_le(d, sx::rat(1, 1000000), tag + " approximate coordinates of " + p.id + " equal the generating ones"); sx::check_le(-d, sx::rat(1, 1000000), tag + " approximate coordinates of " + p.id + " equal the generating ones"); } } }
  R2 r = run2d(b, false); sx::check_true(r.ok, tag + " adjusted", r.why); if (!r.ok) return;
  for (auto& kv : r.x) if (kv.first.back() != 'R') { sx::check_le(kv.second, sx::rat(1, 1000), tag + " zero correction of " + kv.first); sx::check_le(-kv.second, sx::rat(1, 1000), tag + " zero correction of " + kv.first); }
  for (size_t i = 0; i < r.r.size(); i++) { sx::check_le(r.r[i], sx::rat(1, 1000), tag + " zero residual " + std::to_string(i + 1)); sx::check_le(-r.r[i], sx::rat(1, 1000), tag + " zero residual " + std::to_string(i + 1)); }
  sx::check_true(IS->removed_points.empty(), tag + " nothing removed", "");
  sx::reached("net2d-consistent");
}

// C07: every direction set turned by its own symbolic angle; the mirrored frame; reversed listing
static void case_equiv(const Spec2& spec, int alg, int variant) {
  std::vector<Real> err = sym_errors(spec);
  B2 a; if (!build2d(a, spec, err, ALGS[alg])) return; R2 ra = run2d(a, true);
  std::string tag = std::string(ALGS[alg]) + " variant " + std::to_string(variant);
  sx::check_true(ra.ok, tag + " original adjusted", ra.why); if (!ra.ok) return;
  Spec2 s2 = spec; std::vector<Real> turn; std::vector<Real> err2 = err; Real ys = sx::rat(1);
  if (variant >= 10) { int k = 0; for (auto& st : s2.st) { (void)st; if (k++ == variant - 10) { Real t = sx::input("turn"); sx::assume_range(t, Q(-3), Q(3)); turn.push_back(t); } else turn.push_back(sx::rat(0)); } }      // direction set number (variant-10) turned by any angle
  if (variant == 2) { s2.axes = "en"; s2.ysign = -1; for (auto& p : s2.pts) p.y = -p.y; ys = sx::rat(-1); }     // frame "en" with left-handed angles is inconsistent: gama mirrors y; the same survey has y' = -y there
  if (variant == 3) { s2.axes = "sw"; }                                                                           // consistent: the same numbers
  if (variant == 4) { s2.angles = "right-handed"; s2.axes = "nw"; }                                               // both reversed: consistent again? (nw is right-handed) -> same numbers, angles counted the other way
  B2 b; if (!build2d(b, s2, err2, ALGS[alg], variant >= 10 ? &turn : nullptr)) return; R2 rb = run2d(b, true);
  sx::check_true(rb.ok, tag + " transformed adjusted", rb.why); if (!rb.ok) return;
  sx::check_true(ra.dof == rb.dof && ra.defect == rb.defect, tag + " dof, defect", ""); sx::check_eq(ra.vpv, rb.vpv, tag + " sum of squares");
  for (size_t i = 0; i < ra.r.size(); i++) { sx::check_eq(ra.r[i], rb.r[i], tag + " residual " + std::to_string(i + 1)); sx::check_eq(ra.stdev_obs[i], rb.stdev_obs[i], tag + " stdev of adjusted observation " + std::to_string(i + 1)); }
  for (auto& kv : ra.adj) { char t = kv.first.back(); if (t == 'R') continue; auto it = rb.adj.find(kv.first); if (it == rb.adj.end()) { sx::fail(tag + " unknown missing", kv.first); continue; }
    sx::check_eq(kv.second, (t == 'Y' && variant == 2 ? sx::rat(1) : sx::rat(1)) * it->second, tag + " adjusted " + kv.first); }
  for (auto& kv : ra.qxx) { auto it = rb.qxx.find(kv.first); if (it != rb.qxx.end()) sx::check_eq(kv.second, it->second, tag + " q_xx " + kv.first); }
  (void)ys;
  sx::reached("net2d-equiv");
}

// C08: the same free network under different constraint sets
static void case_datum(const Spec2& spec, int alg, const std::vector<std::string>& sets) {
  std::vector<Real> err = sym_errors(spec);
  std::vector<R2> rs;
  for (auto& st : sets) { Spec2 s = spec; for (size_t i = 0; i < s.pts.size(); i++) s.pts[i].st = st[i];
    B2 b; if (!build2d(b, s, err, ALGS[alg])) return; std::string tag = std::string(ALGS[alg]) + " datum " + st;
    make_oracle2d(b, tag); if (!b.orc.resolves) { sx::note("skip", "constraint set does not resolve the defect: " + st); continue; }
    R2 r = run2d(b, false); sx::check_true(r.ok, tag + " adjusted", r.why); if (!r.ok) return;
    LocalNetwork* IS = b.net.IS.get(); Oracle& o = b.orc;
    sx::check_true(r.defect == o.defect, tag + " defect", std::to_string(r.defect) + " vs " + std::to_string(o.defect));
    for (int j = 1; j <= r.n; j++) { int c = o.col(IS->unknown_pointid(j).str(), IS->unknown_type(j)); if (c >= 0) sx::check_eq(r.x[uname(IS, j)], o.x[c], tag + " correction of " + uname(IS, j) + " = constrained minimum of the oracle"); }
    // corrections of the constrained coordinates are orthogonal to the datum transformations restricted to them
    for (int k = 0; k < o.G.c; k++) { Real t = sx::rat(0); for (int c : b.S) { for (int j = 1; j <= r.n; j++) if (o.col(IS->unknown_pointid(j).str(), IS->unknown_type(j)) == c) t = t + sx::constant(o.G(c, k)) * r.x[uname(IS, j)]; } sx::check_zero(t, tag + " G_S'x_S = 0, null vector " + std::to_string(k + 1)); }
    rs.push_back(r); }
  for (size_t a = 1; a < rs.size(); a++) { std::string t = std::string(ALGS[alg]) + " datum " + sets[a] + " vs " + sets[0];
    sx::check_eq(rs[a].vpv, rs[0].vpv, t + " sum of squares"); sx::check_true(rs[a].dof == rs[0].dof && rs[a].defect == rs[0].defect, t + " dof, defect", "");
    for (size_t i = 0; i < rs[0].r.size(); i++) sx::check_eq(rs[a].r[i], rs[0].r[i], t + " residual " + std::to_string(i + 1)); }
  sx::reached("net2d-datum");
}

// C09: statistics of a plane network against the oracle (a priori reference deviation: m0 constant, so that a >= b is decided)
static void case_stats(const Spec2& spec, int alg, bool aposteriori, int passive = -1) {
  std::vector<Real> err = sym_errors(spec);
  B2 b; if (passive >= 0) b.passive.push_back(passive);
  if (!build2d(b, spec, err, ALGS[alg])) return; std::string tag = std::string(ALGS[alg]) + (aposteriori ? " a posteriori" : " a priori") + (passive >= 0 ? " observation " + std::to_string(passive + 1) + " excluded" : "");
  make_oracle2d(b, tag); Oracle& o = b.orc; LocalNetwork* IS = b.net.IS.get(); if (!o.resolves) return;
  if (aposteriori) IS->set_m_0_aposteriori(); else IS->set_m_0_apriori();
  R2 r = run2d(b, true); sx::check_true(r.ok, tag + " adjusted", r.why); if (!r.ok) return;
  Real m0 = IS->m_0();
  sx::check_true(r.dof == o.dof, tag + " degrees of freedom", "");
  if (aposteriori) sx::check_eq(m0 * m0 * sx::rat(o.dof), o.vpv, tag + " m0^2 dof = v'Pv"); else sx::check_eq(m0, sx::constant(spec.sigma_apr), tag + " m0 = sigma-apr");
  std::vector<int> cm(r.n); for (int j = 1; j <= r.n; j++) cm[j - 1] = o.col(IS->unknown_pointid(j).str(), IS->unknown_type(j));
  for (int j = 1; j <= r.n; j++) { Real sd = IS->unknown_stdev(j); sx::check_ge0(sd, tag + " stdev >= 0"); sx::check_eq(sd * sd, m0 * m0 * sx::constant(o.Qx(cm[j - 1], cm[j - 1])), tag + " stdev^2 of " + uname(IS, j) + " = m0^2 q_xx"); }
  // adjusted observations: cofactor (A Q A')_ii; residual cofactor 1/p - q_L
  for (int i = 1; i <= r.m; i++) { Q q = 0; for (int a = 0; a < o.A.c; a++) for (int c = 0; c < o.A.c; c++) if (o.A(i - 1, a) != 0 && o.A(i - 1, c) != 0) q += o.A(i - 1, a) * o.Qx(a, c) * o.A(i - 1, c);
    Real sl = IS->stdev_obs(i); sx::check_ge0(sl, tag + " stdev of adjusted observation >= 0"); sx::check_eq(sl * sl, m0 * m0 * sx::constant(q), tag + " stdev^2 of adjusted observation " + std::to_string(i) + " = m0^2 (A Q A')_ii");
    sx::check_eq(IS->wcoef_res(i), sx::constant(1 / o.P(i - 1, i - 1) - q), tag + " residual cofactor " + std::to_string(i) + " = 1/p - q_L"); }
  for (auto& p : spec.pts) { int cx = o.col(p.id, 'X'), cy = o.col(p.id, 'Y'); if (cx < 0 || cy < 0) continue;
    Real a, bb, alfa; IS->std_error_ellipse(PointID(p.id), a, bb, alfa);
    Real cxx = sx::constant(o.Qx(cx, cx)), cyy = sx::constant(o.Qx(cy, cy)), cxy = sx::constant(o.Qx(cx, cy)); std::string t2 = tag + " ellipse of " + p.id;
    sx::check_eq(a * a + bb * bb, m0 * m0 * (cxx + cyy), t2 + ": a^2 + b^2 = m0^2 trace"); sx::check_eq(a * a * bb * bb, m0 * m0 * m0 * m0 * (cxx * cyy - cxy * cxy), t2 + ": a^2 b^2 = m0^4 det");
    sx::check_ge0(bb, t2 + ": b >= 0"); sx::check_ge0(a, t2 + ": a >= 0"); if (sx::is_const(m0)) sx::check_le(bb, a, t2 + ": a >= b");
    sx::check_ge0(alfa, t2 + ": bearing >= 0"); sx::check_lt(alfa, sx::constant(mpq_class(M_PI)), t2 + ": bearing < pi");
    Real s2 = sin(alfa + alfa), c2 = cos(alfa + alfa);
    sx::check_zero((cxx - cyy) * s2 - sx::rat(2) * cxy * c2, t2 + ": bearing is an eigen-direction"); sx::check_ge0((cxx - cyy) * c2 + sx::rat(2) * cxy * s2, t2 + ": bearing belongs to the major axis"); }
  sx::reached("net2d-stats");
}

// C20: ill-posed plane networks: the same diagnosis and, if adjusted, the same results for every algorithm
static void case_illposed(const Spec2& spec) {
  std::vector<Real> err = sym_errors(spec);
  std::vector<R2> rs; std::vector<std::vector<std::string>> removed;
  for (int alg = 0; alg < 3; alg++) { B2 b; if (!build2d(b, spec, err, ALGS[alg])) return; R2 r = run2d(b, true); rs.push_back(r);
    std::vector<std::string> rm; { LocalNetwork* IS = b.net.IS.get(); auto c = IS->removed_code.begin(); for (auto i = IS->removed_points.begin(); i != IS->removed_points.end(); ++i, ++c) rm.push_back(i->str() + ":" + std::to_string((int)*c)); }
    std::sort(rm.begin(), rm.end());       // the set of removed points is the diagnosis; the order of removal follows the solver's numbering of dependent unknowns
    removed.push_back(rm); }
  for (int alg = 1; alg < 3; alg++) { std::string t = std::string(ALGS[alg]) + " vs envelope (ill-posed plane network)";
    sx::check_true(rs[alg].ok == rs[0].ok, t + " both adjusted or both refused", rs[alg].why + " / " + rs[0].why);
    { std::string l0, l1; for (auto& x : removed[0]) l0 += x + " "; for (auto& x : removed[alg]) l1 += x + " "; sx::check_true(removed[alg] == removed[0], t + " same removed points", "envelope: " + l0 + "| " + ALGS[alg] + ": " + l1); }
    if (!rs[alg].ok || !rs[0].ok) continue;
    sx::check_true(rs[alg].dof == rs[0].dof && rs[alg].defect == rs[0].defect && rs[alg].n == rs[0].n && rs[alg].m == rs[0].m, t + " dof, defect, sizes", "");
    sx::check_eq(rs[alg].vpv, rs[0].vpv, t + " sum of squares");
    for (size_t i = 0; i < rs[0].r.size() && i < rs[alg].r.size(); i++) sx::check_eq(rs[alg].r[i], rs[0].r[i], t + " residual " + std::to_string(i + 1));
    for (auto& kv : rs[0].adj) { auto it = rs[alg].adj.find(kv.first); if (it == rs[alg].adj.end()) { sx::fail(t + " unknown missing", kv.first); continue; } sx::check_eq(it->second, kv.second, t + " adjusted " + kv.first); } }
  sx::note("outcome", rs[0].ok ? "adjusted" : rs[0].why);
  // what is left is the adjustment of the network written without the removed points and without the observations that touch them
  if (rs[0].ok && !removed[0].empty()) {
    std::set<std::string> gone; for (auto& x : removed[0]) gone.insert(x.substr(0, x.find(':')));
    Spec2 red = spec; std::vector<int> keep_pt; std::map<int,int> newidx; std::vector<Real> err2; std::vector<int> kept_obs;
    red.pts.clear(); for (size_t i = 0; i < spec.pts.size(); i++) if (!gone.count(spec.pts[i].id)) { newidx[(int)i] = (int)red.pts.size(); red.pts.push_back(spec.pts[i]); }
    red.st.clear(); int k = 0;
    for (auto& st : spec.st) { St2 t = st; t.obs.clear();
      for (auto& ob : st.obs) { bool touch = gone.count(spec.pts[st.from].id) || gone.count(spec.pts[ob.to].id) || (ob.kind == 2 && gone.count(spec.pts[ob.to2].id));
        if (!touch) { O2 o2 = ob; o2.to = newidx[ob.to]; if (ob.kind == 2) o2.to2 = newidx[ob.to2]; t.obs.push_back(o2); err2.push_back(err[k]); kept_obs.push_back(k); } k++; }
      if (!t.obs.empty() && !gone.count(spec.pts[st.from].id)) { t.from = newidx[st.from]; red.st.push_back(t); } }
    // a station left with a single direction loses it (gama's own rule); such reduced networks are not compared
    bool single = false; for (auto& st : red.st) { int nd = 0; for (auto& ob : st.obs) if (ob.kind == 0) nd++; if (nd == 1) single = true; }
    if (!single && !red.st.empty()) { B2 b; if (build2d(b, red, err2, ALGS[0])) { R2 r = run2d(b, true); std::string t = "removal of " + std::to_string(gone.size()) + " point(s) equals the network written without them:";
      sx::check_true(r.ok, t + " adjusted", r.why);
      if (r.ok) { sx::check_true(r.m == rs[0].m && r.n == rs[0].n && r.dof == rs[0].dof, t + " equations, unknowns, degrees of freedom", std::to_string(rs[0].m) + "/" + std::to_string(rs[0].n) + " vs " + std::to_string(r.m) + "/" + std::to_string(r.n));
        sx::check_eq(r.vpv, rs[0].vpv, t + " sum of squares");
        if (r.m == rs[0].m) for (int i = 0; i < r.m; i++) sx::check_eq(r.r[i], rs[0].r[i], t + " residual " + std::to_string(i + 1));
        for (auto& kv : r.adj) { auto it = rs[0].adj.find(kv.first); if (it == rs[0].adj.end()) { sx::fail(t + " unknown missing", kv.first); continue; } if (kv.first.back() != 'R') sx::check_eq(it->second, kv.second, t + " adjusted " + kv.first); } } } }
  }
  sx::reached("net2d-illposed");
}

// C14: one observation carries an unbounded gross error: the solver splits at tol-abs; kept => |abs.term| <= tol and the result is the
// oracle's with it; rejected => |abs.term| > tol, it is listed as rejected and the result is the oracle's without it
static void case_outlier(const Spec2& spec, int alg, int k) {
  std::vector<Real> err = sym_errors(spec);
  int kind = -1, from_k = -1, to_k = -1; { int q = 0; for (auto& st : spec.st) for (auto& ob : st.obs) { if (q == k) { kind = ob.kind; from_k = st.from; to_k = ob.to; } q++; } }
  Real g = sx::input("gross"); if (kind == 1) sx::assume_range(g, Q(-3), Q(3)); else sx::assume_range(g, Q(-1, 100), Q(1, 100));       // +-3 m on a distance, +-0.01 rad (6366 cc) on a direction or angle; tol-abs = 1000 (mm, cc)
  err[k] = err[k] + g;
  B2 b; if (!build2d(b, spec, err, ALGS[alg])) return; std::string tag = std::string(ALGS[alg]) + " gross error in observation " + std::to_string(k + 1);
  R2 r = run2d(b, false); LocalNetwork* IS = b.net.IS.get();
  // the set of the perturbed direction: with exactly two directions the approximate orientation (median = mean) shares the error between
  // them, both absolute terms are half of it and both are rejected together; any other additional rejection is a failure
  int set_first = -1, set_dirs = 0; { int q = 0; for (auto& st : spec.st) { int first = q, nd = 0; for (auto& ob : st.obs) { if (ob.kind == 0) nd++; q++; } if (k >= first && k < q) { set_first = first; set_dirs = nd; } } }
  bool rejected = false; std::vector<int> also;
  for (Observation* o : IS->rejected_observations()) { if (o == b.obs[k]) { rejected = true; continue; }
    int j = -1; for (size_t t = 0; t < b.obs.size(); t++) if (b.obs[t] == o) j = (int)t;
    bool twin = kind == 0 && set_dirs == 2 && j >= set_first && j >= 0 && dynamic_cast<Direction*>(o) && o->from().str() == b.obs[k]->from().str();
    if (twin) also.push_back(j); else sx::fail(tag + " another observation was rejected", j >= 0 ? "observation " + std::to_string(j + 1) : ""); }
  if (!also.empty()) { sx::check_true(rejected, tag + " the other direction of a two-direction set is rejected only together with the perturbed one", ""); for (int j : also) b.passive.push_back(j); }
  sx::check_true(r.ok, tag + " adjusted", r.why); if (!r.ok) return;
  // the decision against the threshold, on the abs. term stated from the specification
  // (positional misclosure in mm: a distance error itself; an angular error times the length of the sight -- for an angle the sight to its
  //  first target, as documented at LocalNetwork::test_abs_term)
  Real l = (kind == 1) ? (err[k]) * sx::rat(1000) : err[k] * sx::constant(dist(spec, from_k, to_k)) * sx::rat(1000); Real tol = IS->tol_abs();
  if (kind == 0) { /* the approximate orientation of the set absorbs part of the error: the term is taken from the oracle below */ }
  if (rejected) b.passive.push_back(k);
  make_oracle2d(b, tag); Oracle& o = b.orc; if (!o.resolves) return;
  if (kind != 0) { if (rejected) sx::check_true(true, "", ""); Real a = l; if (rejected) { sx::check_lt(tol * tol, a * a, tag + " rejected => |abs.term| > tol-abs"); } else sx::check_le(a * a, tol * tol, tag + " kept => |abs.term| <= tol-abs"); }
  sx::check_true(r.m == o.A.r && r.n == o.A.c, tag + (rejected ? " (rejected)" : " (kept)") + " equations and unknowns", std::to_string(r.m) + "x" + std::to_string(r.n) + " vs " + std::to_string(o.A.r) + "x" + std::to_string(o.A.c));
  if (r.m != o.A.r || r.n != o.A.c) return;
  for (int j = 1; j <= r.n; j++) { int c = o.col(IS->unknown_pointid(j).str(), IS->unknown_type(j)); if (c >= 0) sx::check_eq(r.x[uname(IS, j)], o.x[c], tag + (rejected ? " (rejected)" : " (kept)") + " correction of " + uname(IS, j)); }
  for (int i = 0; i < r.m; i++) sx::check_eq(r.r[i], o.r[i], tag + (rejected ? " (rejected)" : " (kept)") + " residual " + std::to_string(i + 1));
  sx::check_eq(r.vpv, o.vpv, tag + (rejected ? " (rejected)" : " (kept)") + " sum of squares");
  sx::note("outcome", rejected ? "rejected" : "kept");
  sx::reached("net2d-outlier");
}

// C12: the adjustment XML of a plane network read back by gama's own reader (orientation shifts, directions, angles, distances)
static void same_printed(Real got, Real want, const std::string& label, sx::f64 abs_tol = 0) {
  if (sx::is_const(got) && sx::is_const(want)) { sx::f64 a = sx::numeric(got), b = sx::numeric(want); sx::f64 sc = ::fabs(b) > 1 ? ::fabs(b) : 1;
    sx::check_true(::fabs(a - b) <= (abs_tol > 0 ? abs_tol : (sx::f64)1e-6 * sc), label + " (to the printed precision)", sx::show(got) + " vs " + sx::show(want)); }
  else sx::check_eq(got, want, label);
}
static Real wrap400(Real z) { if (z < sx::rat(0)) z = z + sx::rat(400); if (z > sx::rat(400)) z = z - sx::rat(400); return z; }
static void case_xml2d(const Spec2& spec0, int alg, bool en = false) {
  // frame "en" with the default angle sense is inconsistent: gama mirrors y internally and writes values back in the frame of the input
  Spec2 spec = spec0; Real ys = sx::rat(1); if (en) { spec.axes = "en"; spec.ysign = -1; for (auto& p : spec.pts) p.y = -p.y; ys = sx::rat(-1); }
  // observation errors below 1e-7 rad / 0.01 mm and the a priori reference deviation: the writer's outlier tests then have one outcome
  std::vector<Real> err; { size_t k = 0; int last_dir = -1; for (auto& st : spec.st) { last_dir = -1; for (auto& ob : st.obs) { Real e = sx::input("e" + std::to_string(++k)); if (ob.kind == 1) sx::assume_range(e, Q(-1, 100000), Q(1, 100000)); else sx::assume_range(e, Q(-1, 10000000), Q(1, 10000000));
        if (ob.kind == 0) { if (last_dir >= 0) sx::assume_lt(err[last_dir], e); last_dir = (int)err.size(); } err.push_back(e); } } }
  B2 b; if (!build2d(b, spec, err, ALGS[alg])) return; std::string tag = std::string(ALGS[alg]) + " xml";
  LocalNetwork* IS = b.net.IS.get();
  { Real crit = GNU_gama::Normal((sx::rat(1) - IS->conf_pr()) / sx::rat(2)); sx::assume_range(crit, mpq_class(19, 10), mpq_class(2)); }
  R2 r = run2d(b, false); sx::check_true(r.ok, tag + " adjusted", r.why); if (!r.ok) return;
  std::ostringstream xml; GNU_gama::LocalNetworkXML writer(IS); writer.write(xml);
  GNU_gama::LocalNetworkAdjustmentResults res;
  try { std::istringstream in(xml.str()); res.read_xml(in); }
  catch (const GNU_gama::Exception::parser& e) { sx::fail(tag + " the written XML is rejected by the result reader", std::string(e.what()) + " line " + std::to_string(e.line)); return; }
  catch (...) { sx::fail(tag + " the written XML is rejected by the result reader", "exception"); return; }
  const GNU_gama::local::Vec& x = IS->solve(); Real R2Gc = Real((sx::f64)(200.0 / M_PI));
  sx::check_true(res.project_equations.equations == r.m && res.project_equations.unknowns == r.n && res.project_equations.degrees_of_freedom == r.dof && res.project_equations.defect == r.defect, tag + " counts read back", "");
  same_printed(res.project_equations.sum_of_squares, r.vpv, tag + " sum of squares read back");
  // adjusted points
  for (auto& p : res.adjusted_points) { const LocalPoint& lp = IS->PD[PointID(p.id)]; sx::check_true(p.hxy && lp.free_xy(), tag + " adjusted point " + p.id + " has x,y", ""); if (!p.hxy || !lp.free_xy()) continue;
    same_printed(p.x, lp.x() + x(lp.index_x()) / sx::rat(1000), tag + " adjusted x of " + p.id + " read back", (sx::f64)1e-8); same_printed(p.y, ys * (lp.y() + x(lp.index_y()) / sx::rat(1000)), tag + " adjusted y of " + p.id + " read back", (sx::f64)1e-8);
    sx::check_true(p.cxy == lp.constrained_xy(), tag + " constrained flag of " + p.id, ""); }
  { int nfree = 0; for (auto& p : spec.pts) if (p.st != 'f') nfree++; sx::check_true((int)res.adjusted_points.size() == nfree, tag + " number of adjusted points", std::to_string(res.adjusted_points.size())); }
  // orientation shifts
  { int k = 0; for (int i = 1; i <= r.n; i++) if (IS->unknown_type(i) == 'R') { sx::check_true(k < (int)res.orientations.size(), tag + " orientation listed", ""); if (k >= (int)res.orientations.size()) break; auto& o = res.orientations[k++];
      sx::check_true(o.id == IS->unknown_pointid(i).str(), tag + " orientation belongs to station " + IS->unknown_pointid(i).str(), o.id);
      Real z = wrap400(ys * IS->unknown_standpoint(i)->orientation() * sx::rat(200) / Real(M_PI));      // y_sign*(o)*R2G expands to ((y_sign*o)*200.0)/M_PI same_printed(o.approx, z, tag + " approximate orientation of " + o.id + " read back", (sx::f64)1e-5);
      same_printed(o.adj, wrap400(z + ys * x(i) / sx::rat(10000)), tag + " adjusted orientation of " + o.id + " read back", (sx::f64)1e-5); }
    sx::check_true(k == (int)res.orientations.size(), tag + " number of orientation shifts", ""); }
  // observations
  sx::check_true((int)res.obslist.size() == r.m, tag + " observation list length", "");
  if ((int)res.obslist.size() == r.m) for (int i = 1; i <= r.m; i++) { auto& ob = res.obslist[i - 1]; Observation* real = IS->ptr_obs(i); std::string n = std::to_string(i);
    sx::check_true(ob.from == real->from().str(), tag + " observation " + n + " station", ob.from);
    if (dynamic_cast<Distance*>(real)) { sx::check_true(ob.xml_tag == "distance" && ob.to == real->to().str(), tag + " observation " + n + " is a distance to the same point", ob.xml_tag);
      same_printed(ob.obs, real->value(), tag + " observed distance " + n, (sx::f64)1e-8); same_printed(ob.adj, real->value() + r.r[i - 1] / sx::rat(1000), tag + " adjusted distance " + n, (sx::f64)1e-8); }
    else if (dynamic_cast<Direction*>(real)) { sx::check_true(ob.xml_tag == "direction" && ob.to == real->to().str(), tag + " observation " + n + " is a direction to the same point", ob.xml_tag);
      Real m = R2Gc * real->value(); same_printed(ob.obs, m, tag + " observed direction " + n, (sx::f64)1e-8); Real a = m + r.r[i - 1] / sx::rat(10000); if (a < sx::rat(0)) a = a + sx::rat(400); if (a >= sx::rat(400)) a = a - sx::rat(400);
      same_printed(ob.adj, a, tag + " adjusted direction " + n, (sx::f64)1e-8); }
    else if (Angle* an = dynamic_cast<Angle*>(real)) { sx::check_true(ob.xml_tag == "angle" && ob.left == an->bs().str() && ob.right == an->fs().str(), tag + " observation " + n + " is an angle between the same points", ob.xml_tag + " " + ob.left + " " + ob.right);
      Real m = R2Gc * real->value(); same_printed(ob.obs, m, tag + " observed angle " + n, (sx::f64)1e-8); Real a = m + r.r[i - 1] / sx::rat(10000); if (a < sx::rat(0)) a = a + sx::rat(400); if (a >= sx::rat(400)) a = a - sx::rat(400);
      same_printed(ob.adj, a, tag + " adjusted angle " + n, (sx::f64)1e-8); }
    same_printed(ob.qrr, IS->wcoef_res(i), tag + " qrr " + n, (sx::f64)6e-4); }
  sx::reached("net2d-xml");
}

// ---- families ---------------------------------------------------------------------------------------------
static Spec2 quad(const std::string& name, const std::string& status, bool with_dist, bool with_angles, int seed) {
  Spec2 s; s.name = name; qla::Rng rng(seed);
  Q X0 = 1000, Y0 = 2000; const char* ids[] = {"A", "B", "C", "D", "E"}; Q xs[] = {0, 400, 400, 0, 200}, ys[] = {0, 0, 300, 300, 150};
  for (int i = 0; i < 5; i++) s.pts.push_back({ids[i], X0 + xs[i], Y0 + ys[i], status[i], true});
  Q zeros[] = {Q(3, 10), Q(17, 10), Q(4), Q(11, 2), Q(5, 2)};
  int targets[5][4] = {{1, 2, 3, 4}, {0, 2, 3, 4}, {0, 1, 3, 4}, {0, 1, 2, 4}, {0, 1, 2, 3}};
  for (int i = 0; i < 5; i++) { St2 st; st.from = i; st.zero = zeros[i];
    int nd = (i == 3) ? 2 : 4; if (i == 1 && with_angles) nd = 0;
    for (int t = 0; t < nd; t++) st.obs.push_back({0, targets[i][t], 0, Q(10 + 5 * rng.range(0, 2))});
    if (with_dist) for (int t = 0; t < 4; t++) if (targets[i][t] > i && (i + targets[i][t]) % 2 == 1) st.obs.push_back({1, targets[i][t], 0, Q(5 + rng.range(0, 3))});
    if (with_angles && i == 1) { st.obs.push_back({2, 0, 2, Q(15)}); st.obs.push_back({2, 2, 4, Q(12)}); st.obs.push_back({2, 3, 0, Q(20)}); }
    if (!st.obs.empty()) s.st.push_back(st); }
  return s;
}

static void gen_cases(const sx::Options& opt, std::vector<sx::Case>& cases) {
  g_prop = opt.prop; bool th = opt.tier == "thorough";
  auto add = [&](const std::string& n, const std::string& fam, std::function<void()> f) { cases.push_back({n, fam, f}); };
  std::vector<Spec2> fixed{quad("quad-ffaaa-dd", "ffaaa", true, false, 1), quad("quad-ffaaa-da", "ffaaa", true, true, 2), quad("quad-faaaf-d", "faaaf", false, false, 3)};
  if (th) { fixed.push_back(quad("quad-fafaa-dd", "fafaa", true, false, 4)); fixed.push_back(quad("quad-afafa-da", "afafa", true, true, 5)); }
  std::vector<Spec2> freen{quad("quad-ccccc-dd", "ccccc", true, false, 6), quad("quad-ccccc-d", "ccccc", false, false, 7), quad("quad-ccaac-da", "ccaac", true, true, 8)};
  if (on("C01") || on("C02") || on("C03") || on("C05")) { for (auto& s : fixed) { auto sp = std::make_shared<Spec2>(s); add("net2d/oracle/" + s.name, "plane networks", [sp] { case_oracle(*sp); }); }
    for (auto& s : freen) { auto sp = std::make_shared<Spec2>(s); add("net2d/oracle/" + s.name, "plane networks", [sp] { case_oracle(*sp); }); }
    if (th) for (auto& s : fixed) { auto sp = std::make_shared<Spec2>(s); add("net2d/oracle-decreasing/" + s.name, "plane networks", [sp] { g_reverse_order = true; try { case_oracle(*sp); } catch (...) { g_reverse_order = false; throw; } g_reverse_order = false; }); } }
  if (on("C06")) { int k = 0;
    // resections: a free point that is only a station (directions or angles to fixed points), its coordinates left to Acord2
    for (int variant = 0; variant < 3; variant++) { Spec2 s; s.name = std::string("resection-") + (variant == 0 ? "directions" : variant == 1 ? "angles" : "directions-T2");
      Q X0 = 1000, Y0 = 2000; s.pts = {{"A", X0, Y0, 'f', true}, {"B", X0 + 400, Y0, 'f', true}, {"C", X0 + 400, Y0 + 300, 'f', true}, {"D", X0, Y0 + 300, 'f', true}, {"E", X0 + 200, Y0 + 150, 'a', true}};
      if (variant == 2) { s.pts[4].x = X0 + 100; s.pts[4].y = Y0 + 75; s.pts[2].x = X0 + 200; s.pts[2].y = Y0 + 150; }      // E on the diagonal, C at the centre: other bearings
      St2 st; st.from = 4; st.zero = Q(23, 10);
      if (variant != 1) { for (int t : {0, 1, 3}) st.obs.push_back({0, t, 0, Q(10)}); if (variant == 0) st.obs.push_back({0, 2, 0, Q(10)}); }
      else { st.obs.push_back({2, 0, 1, Q(10)}); st.obs.push_back({2, 1, 2, Q(10)}); st.obs.push_back({2, 2, 3, Q(10)}); }
      s.st.push_back(st);
      for (int omit = 0; omit < 2; omit++) { int alg = (k++) % 3; auto sp = std::make_shared<Spec2>(s); add("net2d/consistent/" + s.name + "/" + ALGS[alg] + (omit ? "/acord" : "/given"), "plane networks", [sp, alg, omit] { case_consistent(*sp, alg, omit != 0); }); } }
    // resection by directions where a pair of targets occurs in both orders: a round closed on its first target, two rounds in opposite
    // order (ApproxPoint::ArrangeObservations merges the inner angles of equal target pairs, complementing those listed the other way round)
    for (int variant = 0; variant < 3; variant++) { Spec2 s; s.name = variant == 0 ? "resection-closed-round" : variant == 1 ? "resection-two-rounds-reversed" : "resection-closed-round-T2";
      Q X0 = 1000, Y0 = 2000; s.pts = {{"A", X0, Y0, 'f', true}, {"B", X0 + 400, Y0, 'f', true}, {"C", X0 + 400, Y0 + 300, 'f', true}, {"D", X0, Y0 + 300, 'f', true}, {"E", X0 + 200, Y0 + 150, 'a', true}};
      if (variant == 2) { s.pts[4].x = X0 + 100; s.pts[4].y = Y0 + 75; s.pts[2].x = X0 + 200; s.pts[2].y = Y0 + 150; }
      St2 st; st.from = 4; st.zero = variant == 2 ? Q(55, 10) : Q(23, 10); for (int t : {0, 1, 3}) st.obs.push_back({0, t, 0, Q(10)});
      if (variant != 1) { st.obs.push_back({0, 0, 0, Q(10)}); s.st.push_back(st); }
      else { s.st.push_back(st); St2 st2; st2.from = 4; st2.zero = Q(41, 10); for (int t : {3, 1, 0}) st2.obs.push_back({0, t, 0, Q(10)}); s.st.push_back(st2); }
      int alg = (k++) % 3; auto sp = std::make_shared<Spec2>(s); add("net2d/consistent/" + s.name + "/" + ALGS[alg] + "/acord", "plane networks", [sp, alg] { case_consistent(*sp, alg, true); }); }
    // two-angle resections in pseudo-random integer geometries (general position: the constants are radicals and arctangents, compared
    // numerically); which of the two circle intersections is the point, and where bearing 0 falls, varies from one to the next
    // (the family is fixed, independent of VERIF_SEED).  Only geometries that the documented strategy resolves are generated:
    // Angle_angle intersects the circle through A, B, T with the one through B, C, T and refuses on purpose when they cut at
    // less than 10 gon (sin < 0.15, g2d_cogo.cpp "intersection angle < 10 gon"), relaxed once to 6 gon (sin < 0.1) by
    // AcordIntersection; the family keeps sin >= 0.11, which includes members between the two limits
    { qla::Rng rng(606); int made = 0;
      for (int t = 0; made < (th ? 60 : 24) && t < 600; t++) { Spec2 s; s.name = "resection-random" + std::to_string(made);
        long tx = rng.range(-300, 300), ty = rng.range(-300, 300); long px[3], py[3]; bool ok = true;
        for (int i = 0; i < 3; i++) { px[i] = rng.range(-500, 500); py[i] = rng.range(-500, 500); if (std::labs(px[i] - tx) + std::labs(py[i] - ty) < 60) ok = false; for (int j = 0; j < i; j++) if (std::labs(px[i] - px[j]) + std::labs(py[i] - py[j]) < 60) ok = false; }
        // not (nearly) on the circle through the three targets, targets not collinear with the point
        { double ax = px[0], ay = py[0], bx = px[1], by = py[1], cx = px[2], cy = py[2]; double d = 2 * (ax * (by - cy) + bx * (cy - ay) + cx * (ay - by)); if (std::fabs(d) < 2e4) ok = false; else {
            double ux = ((ax * ax + ay * ay) * (by - cy) + (bx * bx + by * by) * (cy - ay) + (cx * cx + cy * cy) * (ay - by)) / d, uy = ((ax * ax + ay * ay) * (cx - bx) + (bx * bx + by * by) * (ax - cx) + (cx * cx + cy * cy) * (bx - ax)) / d;
            double R = std::hypot(ax - ux, ay - uy), dist = std::hypot(tx - ux, ty - uy); if (std::fabs(dist - R) < 0.15 * R) ok = false; }
          // the sights from the point cut each other at 30..150 degrees (no weak resection: Acord2 refuses those on purpose)
          for (int i = 0; i < 3 && ok; i++) for (int j = 0; j < i; j++) { double c = (double)(px[i] - tx) * (py[j] - ty) - (double)(py[i] - ty) * (px[j] - tx); double n1 = std::hypot(px[i] - tx, py[i] - ty), n2 = std::hypot(px[j] - tx, py[j] - ty); if (std::fabs(c) < 0.5 * n1 * n2) ok = false; }
          // the two circles of the construction cut at T at an angle whose sine is at least 0.11
          if (ok) { auto centre = [](double x1, double y1, double x2, double y2, double x3, double y3, double& ox, double& oy) { double dd = 2 * (x1 * (y2 - y3) + x2 * (y3 - y1) + x3 * (y1 - y2));
                ox = ((x1 * x1 + y1 * y1) * (y2 - y3) + (x2 * x2 + y2 * y2) * (y3 - y1) + (x3 * x3 + y3 * y3) * (y1 - y2)) / dd; oy = ((x1 * x1 + y1 * y1) * (x3 - x2) + (x2 * x2 + y2 * y2) * (x1 - x3) + (x3 * x3 + y3 * y3) * (x2 - x1)) / dd; };
            double o1x, o1y, o2x, o2y; centre(ax, ay, bx, by, tx, ty, o1x, o1y); centre(bx, by, cx, cy, tx, ty, o2x, o2y);
            double c = (o1x - tx) * (o2y - ty) - (o1y - ty) * (o2x - tx), n1 = std::hypot(o1x - tx, o1y - ty), n2 = std::hypot(o2x - tx, o2y - ty); if (!(std::fabs(c) >= 0.11 * n1 * n2)) ok = false;
            if (getenv("SX_DUMP_RESECTION")) std::cerr << "resection t=" << t << " ok=" << ok << " sin=" << sx::numeric0(std::fabs(c) / (n1 * n2)) << "\n"; } }
        if (!ok) continue;
        s.pts = {{"A", Q(px[0]), Q(py[0]), 'f', true}, {"B", Q(px[1]), Q(py[1]), 'f', true}, {"C", Q(px[2]), Q(py[2]), 'f', true}, {"T", Q(tx), Q(ty), 'a', true}};
        St2 st; st.from = 3; st.zero = Q(0); st.obs.push_back({2, 0, 1, Q(10)}); st.obs.push_back({2, 1, 2, Q(10)}); s.st.push_back(st);
        int alg = made % 3; auto sp = std::make_shared<Spec2>(s);
        add("net2d/consistent/" + s.name + "/" + ALGS[alg] + "/acord", "plane networks", [sp, alg] { case_consistent(*sp, alg, true); });
        made++; } }
    // other strategies of Acord2 in integer geometries (general position), coordinates of the free points omitted: a traverse between two
    // fixed points oriented at both ends / at its start only / entered from the far end of the listing; forward intersection of directions
    // from stations oriented by one fixed target; intersection of distances with a third one to choose between the two solutions;
    // polar method from a station oriented by a single fixed target; circle zeros chosen so that some sets cross 0/400 gon
    { auto P = [](const char* id, long x, long y, char st) { return P2{id, Q(x), Q(y), st, true}; };
      auto D = [](int to) { return O2{0, to, 0, Q(10)}; }; auto L = [](int to) { return O2{1, to, 0, Q(5)}; };
      std::vector<Spec2> extra;
      for (int v = 0; v < 3; v++) { Spec2 s; s.name = v == 0 ? "traverse-both-ends" : v == 1 ? "traverse-open" : "traverse-listed-backwards";
        s.pts = {P("A", 0, 0, 'f'), P("Z1", -300, 120, 'f'), P("P1", 120, 160, 'a'), P("P2", 300, -80, 'a'), P("P3", 580, 16, 'a'), P("B", 820, -54, v == 1 ? 'a' : 'f'), P("Z2", 1000, 300, 'f')};
        std::vector<St2> st{{0, Q(13, 10), {D(1), D(2), L(2)}}, {2, Q(57, 10), {D(0), D(3), L(3)}}, {3, Q(29, 10), {D(2), D(4), L(4)}}, {4, Q(3, 10), {D(3), D(5), L(5)}}};
        if (v != 1) st.push_back({5, Q(44, 10), {D(4), D(6)}});
        if (v == 2) std::reverse(st.begin(), st.end());
        s.st = st; extra.push_back(s); }
      { Spec2 s; s.name = "forward-intersection"; s.pts = {P("A", 0, 0, 'f'), P("B", 500, 0, 'f'), P("C", 250, -400, 'f'), P("P", 180, 320, 'a'), P("Q", -260, -150, 'a')};
        s.st = {{0, Q(61, 10), {D(1), D(3), D(4)}}, {1, Q(2, 10), {D(0), D(3), D(4)}}, {2, Q(35, 10), {D(0), D(3), D(4)}}}; extra.push_back(s); }
      { Spec2 s; s.name = "distance-intersection"; s.pts = {P("A", 0, 0, 'f'), P("B", 500, 0, 'f'), P("C", 180, -135, 'f'), P("P", 180, 240, 'a'), P("Q", 320, -240, 'a')};
        s.st = {{0, Q(0), {L(3), L(4)}}, {1, Q(0), {L(3), L(4)}}, {2, Q(0), {L(3), L(4)}}}; extra.push_back(s); }
      { Spec2 s; s.name = "polar-single-orientation"; s.pts = {P("A", 0, 0, 'f'), P("B", -120, 350, 'f'), P("P", 240, 100, 'a'), P("Q", -300, -160, 'a'), P("R", 75, -180, 'a')};
        s.st = {{0, Q(47, 10), {D(1), D(2), L(2), D(3), L(3), D(4), L(4)}}, {2, Q(21, 10), {D(0), D(4), L(4)}}}; extra.push_back(s); }
      for (auto& s : extra) { int alg = (k++) % 3; auto sp = std::make_shared<Spec2>(s); add("net2d/consistent/" + s.name + "/" + ALGS[alg] + "/acord", "plane networks", [sp, alg] { case_consistent(*sp, alg, true); });
        if (th) { int alg2 = (k++) % 3; add("net2d/consistent/" + s.name + "/" + ALGS[alg2] + "/given", "plane networks", [sp, alg2] { case_consistent(*sp, alg2, false); }); } } }
    for (auto& s : fixed) for (int omit = 0; omit < 2; omit++) { int alg = (k++) % 3; auto sp = std::make_shared<Spec2>(s); add("net2d/consistent/" + s.name + "/" + ALGS[alg] + (omit ? "/acord" : "/given"), "plane networks", [sp, alg, omit] { case_consistent(*sp, alg, omit != 0); }); } }
  if (on("C07")) { int k = 0; for (auto& s : fixed) for (int v : {2, 3, 10, 11, 12, 13, 14}) { if (v >= 10 && v - 10 >= (int)s.st.size()) continue; if (!th && v >= 10 && v != 10 && v != 12) continue; int alg = (k++) % 3; auto sp = std::make_shared<Spec2>(s); bool rev = (v >= 10) && ((v + k) % 2 == 0);      // the errors of the sets in decreasing order for every other turned set
      add("net2d/equiv/" + s.name + "/" + ALGS[alg] + "/variant" + std::to_string(v) + (rev ? "-decreasing" : ""), "plane networks", [sp, alg, v, rev] { g_reverse_order = rev; try { case_equiv(*sp, alg, v); } catch (...) { g_reverse_order = false; throw; } g_reverse_order = false; }); } }
  if (on("C09")) { int k = 0; for (auto& s : fixed) for (int ap = 0; ap < 2; ap++) { int alg = (k++) % 3; auto sp = std::make_shared<Spec2>(s); add("net2d/stats/" + s.name + "/" + ALGS[alg] + (ap ? "/aposteriori" : "/apriori"), "plane networks", [sp, alg, ap] { case_stats(*sp, alg, ap != 0); }); }
    // one observation inside a station's cluster excluded by the user (clusters here are uncorrelated with differing standard deviations)
    for (auto& s : fixed) for (int pk : {1, 5}) { if (!th && pk == 5 && &s != &fixed[0]) continue; int alg = (k++) % 3; auto sp = std::make_shared<Spec2>(s);
      add("net2d/stats-excluded/" + s.name + "/" + ALGS[alg] + "/obs" + std::to_string(pk), "plane networks", [sp, alg, pk] { case_stats(*sp, alg, false, pk); }); } }
  if (on("C20")) {
    std::vector<Spec2> ill;
    // (networks whose point-removal loop reaches LocalNetwork::singular_coords with an all-zero column are left out: the code computes
    //  0/0 there and relies on the NaN comparing false, which exact arithmetic cannot follow: no datum at all, one fixed point with distances)
    { Spec2 s = quad("ill-one-fixed-dirs", "faaaa", false, false, 23); ill.push_back(s); }                                     // directions only with one fixed point: rotation and scale
    { Spec2 s = quad("ill-single-sight", "ffaaa", true, false, 24); for (auto& st : s.st) { std::vector<O2> keep; for (auto& o : st.obs) if (o.to != 4 && st.from != 4) keep.push_back(o); st.obs = keep; }
      s.st.erase(std::remove_if(s.st.begin(), s.st.end(), [](const St2& t) { return t.obs.empty(); }), s.st.end()); s.st[0].obs.push_back({0, 4, 0, Q(10)}); ill.push_back(s); }   // E seen by one direction only
    { Spec2 s = quad("ill-two-fixed-dirs", "ffaaa", false, false, 26); for (auto& st : s.st) { std::vector<O2> keep; for (auto& o : st.obs) if (!(st.from == 3 || o.to == 3)) keep.push_back(o); st.obs = keep; }
      s.st.erase(std::remove_if(s.st.begin(), s.st.end(), [](const St2& t) { return t.obs.empty(); }), s.st.end()); ill.push_back(s); }                                       // D not observed at all
    { Spec2 s = quad("ill-angle-target", "ffaaa", true, false, 27); for (auto& st : s.st) { std::vector<O2> keep; for (auto& o : st.obs) if (o.to != 4 && st.from != 4) keep.push_back(o); st.obs = keep; }
      s.st.erase(std::remove_if(s.st.begin(), s.st.end(), [](const St2& t) { return t.obs.empty(); }), s.st.end()); s.st[1].obs.push_back({2, 0, 4, Q(15)}); ill.push_back(s); }   // E is only the second target of one angle
    { Spec2 s = quad("ill-angle-first-target", "ffaaa", true, false, 28); for (auto& st : s.st) { std::vector<O2> keep; for (auto& o : st.obs) if (o.to != 4 && st.from != 4) keep.push_back(o); st.obs = keep; }
      s.st.erase(std::remove_if(s.st.begin(), s.st.end(), [](const St2& t) { return t.obs.empty(); }), s.st.end()); s.st[1].obs.push_back({2, 4, 2, Q(15)}); ill.push_back(s); }   // E is only the first target of one angle
    for (auto& s : ill) { auto sp = std::make_shared<Spec2>(s); add("net2d/illposed/" + s.name, "plane networks", [sp] { case_illposed(*sp); }); } }
  if (on("C14")) { int k = 0;
    // a free network with some points constrained: the removal of the first listed observation renumbers the unknowns
    for (int q : {0, 4}) { int alg = (k++) % 3; auto sp = std::make_shared<Spec2>(freen[2]); add("net2d/outlier/" + freen[2].name + "/" + ALGS[alg] + "/obs" + std::to_string(q), "plane networks", [sp, alg, q] { case_outlier(*sp, alg, q); }); }
    // an angle (standard deviation above m0) in the quick tier as well
    if (!th) { int alg = (k++) % 3; auto sp = std::make_shared<Spec2>(fixed[1]); add("net2d/outlier/" + fixed[1].name + "/" + ALGS[alg] + "/obs8", "plane networks", [sp, alg] { case_outlier(*sp, alg, 8); }); }
    for (auto& s : fixed) { if (&s != &fixed[0] && !th) continue; int nobs = 0; for (auto& st : s.st) nobs += (int)st.obs.size();
      for (int q = 0; q < nobs; q += (th ? 2 : 5)) { int alg = (k++) % 3; auto sp = std::make_shared<Spec2>(s); add("net2d/outlier/" + s.name + "/" + ALGS[alg] + "/obs" + std::to_string(q), "plane networks", [sp, alg, q] { case_outlier(*sp, alg, q); }); } } }
  if (on("C12")) { int k = 0; for (auto& s : fixed) { int alg = (k++) % 3; auto sp = std::make_shared<Spec2>(s); add("net2d/xml/" + s.name + "/" + ALGS[alg], "plane networks", [sp, alg] { case_xml2d(*sp, alg); }); }
    { auto sp = std::make_shared<Spec2>(freen[2]); add("net2d/xml/" + freen[2].name + "/envelope", "plane networks", [sp] { case_xml2d(*sp, 0); }); }
    { auto sp = std::make_shared<Spec2>(fixed[0]); add("net2d/xml/" + fixed[0].name + "@en/gso", "plane networks", [sp] { case_xml2d(*sp, 2, true); }); auto sq = std::make_shared<Spec2>(fixed[2]); add("net2d/xml/" + fixed[2].name + "@en/envelope", "plane networks", [sq] { case_xml2d(*sq, 0, true); }); } }
  if (on("C08")) { for (int alg = 0; alg < 3; alg++) { auto sp = std::make_shared<Spec2>(freen[0]); add(std::string("net2d/datum/quad-dd/") + ALGS[alg], "plane networks", [sp, alg] { case_datum(*sp, alg, {"ccccc", "ccaaa", "acaca", "aaccc"}); });
      auto sq = std::make_shared<Spec2>(freen[1]); add(std::string("net2d/datum/quad-d/") + ALGS[alg], "plane networks", [sq, alg] { case_datum(*sq, alg, {"ccccc", "ccaaa", "acaca"}); }); } }
}
int main(int argc, char** argv) { set_gama_language(en); return sx::run_main(argc, argv, "net2d", gen_cases); }
