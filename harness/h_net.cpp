// Harness "net": the real GKFparser -> LocalNetwork pipeline on generated networks of linear
// observation types (height differences, vectors, observed coordinates) with symbolic observed
// values.  The oracle is the exact datum-constrained weighted least-squares solution computed in
// rational arithmetic from the network specification only.
#include "netgen.h"
#include <iostream>

using namespace N;
static std::string g_prop;
static bool on(const char* p) { return g_prop.empty() || g_prop == p; }
static const char* ALGS[] = {"envelope", "cholesky", "gso", "svd"};

struct Built {
  Spec spec; Net net; std::vector<Observation*> obs; std::vector<Real> val; Approx ap; Oracle orc; std::vector<bool> active;
  std::vector<int> S;      // constrained unknown columns of the oracle
};

// symbolic observed value k: the true value plus a bounded symbolic error (bound keeps |abs.term| below tol-abs)
static Real sym_value(const Q& truth, int k, const Q& bound_m, const std::string& prefix = "e") {
  Real e = sx::input(prefix + std::to_string(k + 1));
  sx::assume_range(e, -bound_m, bound_m);
  return sx::constant(truth) + e;
}

static void approx_from_spec(const Spec& s, Approx& ap) {
  for (auto& p : s.pts) { if (p.has_xy) { ap.x[p.id] = sx::constant(p.ax); ap.y[p.id] = sx::constant(p.ay); } if (p.has_z) ap.z[p.id] = sx::constant(p.az); }
}

static QMat weight_matrix(const Spec& s, const std::vector<bool>& active) {
  // block diagonal P = m0^2 * C^-1 over the ACTIVE observations of each cluster (sub-matrix of the band)
  std::vector<QMat> blocks; int tot = 0; size_t k = 0;
  for (auto& c : s.cl) {
    QMat C = cov_of(c); std::vector<int> idx;
    for (size_t i = 0; i < c.obs.size(); i++, k++) if (active[k]) idx.push_back((int)i);
    if (idx.empty()) continue;
    QMat Cs((int)idx.size(), (int)idx.size());
    for (size_t a = 0; a < idx.size(); a++) for (size_t b = 0; b < idx.size(); b++) Cs((int)a, (int)b) = C(idx[a], idx[b]);
    blocks.push_back(qla::inverse(Cs)); tot += (int)idx.size();
  }
  QMat P(tot, tot); int r = 0;
  for (auto& b : blocks) { for (int i = 0; i < b.r; i++) for (int j = 0; j < b.c; j++) P(r + i, r + j) = b(i, j) * s.sigma_apr * s.sigma_apr; r += b.r; }
  return P;
}

static bool build(Built& b, const Spec& spec, const std::string& alg, const Q& bound_m, bool symbolic_values = true) {
  b.spec = spec;
  std::string text = gkf(spec);
  if (!b.net.parse(text)) { sx::fail("generated input rejected by the parser", b.net.parse_error + " line " + std::to_string(b.net.parse_line)); return false; }
  b.obs = b.net.all_obs();
  size_t nspec = 0; for (auto& c : spec.cl) nspec += c.obs.size();
  if (b.obs.size() != nspec) { sx::fail("parser produced a different number of observations", std::to_string(b.obs.size()) + " vs " + std::to_string(nspec)); return false; }
  size_t k = 0;
  for (auto& c : spec.cl) for (auto& o : c.obs) {
    Real v = symbolic_values ? sym_value(o.val, (int)k, bound_m) : sx::constant(o.val);
    b.val.push_back(v); b.obs[k]->set_value(v); k++;
  }
  b.active.assign(b.obs.size(), true);
  approx_from_spec(spec, b.ap);
  b.net.prepare(alg, false);
  return true;
}

static void make_oracle(Built& b) {
  oracle_linear(b.orc, b.spec, b.obs, b.val, b.active, b.ap, sx::rat(1));
  b.orc.P = weight_matrix(b.spec, b.active);
  b.S.clear();
  for (size_t c = 0; c < b.orc.unk.size(); c++) {
    const Pt* p = b.spec.pt(b.orc.unk[c].first); char t = b.orc.unk[c].second;
    bool con = false; for (char ch : p->adj) { if ((t == 'X' || t == 'Y') && (ch == 'X' || ch == 'Y')) con = true; if (t == 'Z' && ch == 'Z') con = true; }
    if (con) b.S.push_back((int)c);
  }
  oracle_solve(b.orc, b.S);
}

// compare the adjustment held by the network with the oracle
static void compare_with_oracle(Built& b, const std::string& tag, bool cofactors) {
  LocalNetwork* IS = b.net.IS.get();
  Oracle& o = b.orc;
  const GNU_gama::local::Vec& x = IS->solve();
  int n = IS->unknowns_count();
  sx::check_true(n == (int)o.unk.size(), tag + " number of unknowns", std::to_string(n) + " vs " + std::to_string(o.unk.size()));
  if (n != (int)o.unk.size()) return;
  std::vector<int> colmap(n);
  for (int i = 1; i <= n; i++) {
    int c = o.col(IS->unknown_pointid(i).str(), IS->unknown_type(i));
    sx::check_true(c >= 0, tag + " unknown is one of the expected ones", IS->unknown_pointid(i).str());
    if (c < 0) return;
    colmap[i - 1] = c;
    sx::check_eq(x(i), o.x[c], tag + " correction of " + IS->unknown_pointid(i).str() + "." + IS->unknown_type(i));
  }
  const GNU_gama::local::Vec& r = IS->residuals();
  int m = IS->observations_count();
  sx::check_true(m == o.A.r, tag + " number of observations", "");
  if (m != o.A.r) return;
  for (int i = 1; i <= m; i++) sx::check_eq(r(i), o.r[i - 1], tag + " residual " + std::to_string(i));
  sx::check_eq(IS->trans_VWV(), o.vpv, tag + " sum of squares v'Pv");
  sx::check_true(IS->degrees_of_freedom() == o.dof, tag + " degrees of freedom", std::to_string(IS->degrees_of_freedom()) + " vs " + std::to_string(o.dof));
  sx::check_true(IS->null_space() == o.defect, tag + " defect", "");
  if (cofactors) {
    for (int i = 1; i <= n; i++) for (int j = 1; j <= n; j++)
      sx::check_eq(IS->qxx(i, j), sx::constant(o.Qx(colmap[i - 1], colmap[j - 1])), tag + " q_xx " + std::to_string(i) + "," + std::to_string(j));
  }
  sx::reached("net-compare");
}

// ---------------------------------------------------------------------------------------------------
static void case_c01(const Spec& spec, int alg) {
  Built b;
  if (!build(b, spec, ALGS[alg], Q(1, 10))) return;
  make_oracle(b);
  if (!b.orc.resolves) { sx::note("skip", "datum does not resolve the defect"); return; }
  compare_with_oracle(b, ALGS[alg], on("C03"));
}

// ---------------------------------------------------------------------------------------------------
static std::vector<Spec> linear_family(const sx::Options& opt) {
  bool th = opt.tier == "thorough";
  std::vector<Spec> v;
  qla::Rng rng(2024 + opt.seed);
  std::vector<std::pair<int,int>> loop5{{1,2},{2,3},{3,4},{4,5},{5,1},{2,4},{1,3}};
  std::vector<std::pair<int,int>> chain4{{1,2},{2,3},{3,4},{4,1},{1,3}};
  for (int cs = 0; cs < (th ? 4 : 3); cs++) {
    v.push_back(levelling("lev5-fixed1/cov" + std::to_string(cs), 5, loop5, "faaaa", rng, cs));
    v.push_back(levelling("lev5-free-c2/cov" + std::to_string(cs), 5, loop5, "ccaaa", rng, cs, 2));
    v.push_back(levelling("lev4-free-all/cov" + std::to_string(cs), 4, chain4, "cccc", rng, cs));
  }
  v.push_back(levelling("lev5-fixed2", 5, loop5, "fafaa", rng, 0, 3));
  for (int cs = 0; cs < (th ? 3 : 2); cs++) {
    v.push_back(vectors("vec4-fixed1/cov" + std::to_string(cs), 4, {{1,2},{2,3},{3,4},{4,1},{1,3}}, "faaa", rng, cs));
    v.push_back(vectors("vec4-free/cov" + std::to_string(cs), 4, {{1,2},{2,3},{3,4},{4,1},{2,4}}, "caca", rng, cs));
  }
  { Spec s = vectors("vec3-coords", 3, {{1,2},{2,3},{3,1}}, "aaa", rng, 1); add_coordinates(s, {"V1", "V2"}, true, true, rng, true); v.push_back(s); }
  { Spec s = levelling("lev4-coordz", 4, chain4, "aaaa", rng, 2); add_coordinates(s, {"H2"}, false, true, rng, false); v.push_back(s); }
  return v;
}

static void gen_cases(const sx::Options& opt, std::vector<sx::Case>& cases) {
  g_prop = opt.prop;
  std::vector<Spec> fam = linear_family(opt);
  if (on("C01") || on("C03")) {
    for (auto& s : fam) for (int alg = 0; alg < 3; alg++) {
      std::shared_ptr<Spec> sp = std::make_shared<Spec>(s);
      cases.push_back({"net/" + s.name + "/" + ALGS[alg], "LocalNetwork linear", [sp, alg] { sx::note("network", sp->name); case_c01(*sp, alg); }});
    }
  }
}

int main(int argc, char** argv) { return sx::run_main(argc, argv, "net", gen_cases); }
