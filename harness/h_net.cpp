// Harness "net": the real GKFparser -> LocalNetwork pipeline on generated networks of linear
// observation types (height differences, vectors, observed coordinates) with symbolic observed
// values.  The oracle is the exact datum-constrained weighted least-squares solution computed in
// rational arithmetic from the network specification only.
#include "netgen.h"
#include <fstream>
#include <iostream>
#include <gnu_gama/local/language.h>

using namespace N;
static std::string g_prop;
static bool on(const char* p) { return g_prop.empty() || g_prop == p; }
static const char* ALGS[] = {"envelope", "cholesky", "gso", "svd"};

struct Built {
  Spec spec; Net net; std::vector<Observation*> obs; std::vector<Real> val; Approx ap; Oracle orc; std::vector<bool> active;
  std::vector<int> S;      // constrained unknown columns of the oracle
};

// symbolic observed value k: the true value plus a bounded symbolic error (bound keeps |abs.term| below tol-abs)
static Real sym_value(const Q& truth, int k, const Q& bound_m, const std::string& prefix = "e") {
  Real e = sx::input(prefix + std::to_string(k + 1));
  sx::assume_range(e, -bound_m, bound_m);
  return sx::constant(truth) + e;
}

static void approx_from_spec(const Spec& s, Approx& ap) {
  for (auto& p : s.pts) { if (p.has_xy) { ap.x[p.id] = sx::constant(p.ax); ap.y[p.id] = sx::constant(p.ay); } if (p.has_z) ap.z[p.id] = sx::constant(p.az); }
}

static QMat weight_matrix(const Spec& s, const std::vector<bool>& active) {
  // block diagonal P = m0^2 * C^-1 over the ACTIVE observations of each cluster (sub-matrix of the band)
  std::vector<QMat> blocks; int tot = 0; size_t k = 0;
  for (auto& c : s.cl) {
    QMat C = cov_of(c); std::vector<int> idx;
    for (size_t i = 0; i < c.obs.size(); i++, k++) if (active[k]) idx.push_back((int)i);
    if (idx.empty()) continue;
    QMat Cs((int)idx.size(), (int)idx.size());
    for (size_t a = 0; a < idx.size(); a++) for (size_t b = 0; b < idx.size(); b++) Cs((int)a, (int)b) = C(idx[a], idx[b]);
    blocks.push_back(qla::inverse(Cs)); tot += (int)idx.size();
  }
  QMat P(tot, tot); int r = 0;
  for (auto& b : blocks) { for (int i = 0; i < b.r; i++) for (int j = 0; j < b.c; j++) P(r + i, r + j) = b(i, j) * s.sigma_apr * s.sigma_apr; r += b.r; }
  return P;
}

static bool build(Built& b, const Spec& spec, const std::string& alg, const Q& bound_m, bool symbolic_values = true) {
  b.spec = spec;
  std::string text = gkf(spec);
  if (const char* d = getenv("SX_DUMP_GKF")) { std::ofstream f(d); f << text; }
  if (!b.net.parse(text)) { sx::fail("generated input rejected by the parser", b.net.parse_error + " line " + std::to_string(b.net.parse_line)); return false; }
  b.obs = b.net.all_obs();
  size_t nspec = 0; for (auto& c : spec.cl) nspec += c.obs.size();
  if (b.obs.size() != nspec) { sx::fail("parser produced a different number of observations", std::to_string(b.obs.size()) + " vs " + std::to_string(nspec)); return false; }
  size_t k = 0;
  for (auto& c : spec.cl) for (auto& o : c.obs) {
    Real v = symbolic_values ? sym_value(o.val, (int)k, bound_m) : sx::constant(o.val);
    b.val.push_back(v); b.obs[k]->set_value(v); k++;
  }
  b.active.assign(b.obs.size(), true);
  approx_from_spec(spec, b.ap);
  b.net.prepare(alg, false);
  return true;
}

static void make_oracle(Built& b) {
  oracle_linear(b.orc, b.spec, b.obs, b.val, b.active, b.ap, sx::rat(1));
  b.orc.P = weight_matrix(b.spec, b.active);
  b.S.clear();
  for (size_t c = 0; c < b.orc.unk.size(); c++) {
    const Pt* p = b.spec.pt(b.orc.unk[c].first); char t = b.orc.unk[c].second;
    bool con = false; for (char ch : p->adj) { if ((t == 'X' || t == 'Y') && (ch == 'X' || ch == 'Y')) con = true; if (t == 'Z' && ch == 'Z') con = true; }
    if (con) b.S.push_back((int)c);
  }
  oracle_solve(b.orc, b.S);
}

// compare the adjustment held by the network with the oracle
static void compare_with_oracle(Built& b, const std::string& tag, bool cofactors) {
  LocalNetwork* IS = b.net.IS.get();
  Oracle& o = b.orc;
  const GNU_gama::local::Vec& x = IS->solve();
  int n = IS->unknowns_count();
  sx::check_true(n == (int)o.unk.size(), tag + " number of unknowns", std::to_string(n) + " vs " + std::to_string(o.unk.size()));
  if (n != (int)o.unk.size()) return;
  std::vector<int> colmap(n);
  for (int i = 1; i <= n; i++) {
    int c = o.col(IS->unknown_pointid(i).str(), IS->unknown_type(i));
    sx::check_true(c >= 0, tag + " unknown is one of the expected ones", IS->unknown_pointid(i).str());
    if (c < 0) return;
    colmap[i - 1] = c;
    sx::check_eq(x(i), o.x[c], tag + " correction of " + IS->unknown_pointid(i).str() + "." + IS->unknown_type(i));
  }
  const GNU_gama::local::Vec& r = IS->residuals();
  int m = IS->observations_count();
  sx::check_true(m == o.A.r, tag + " number of observations", "");
  if (m != o.A.r) return;
  for (int i = 1; i <= m; i++) sx::check_eq(r(i), o.r[i - 1], tag + " residual " + std::to_string(i));
  sx::check_eq(IS->trans_VWV(), o.vpv, tag + " sum of squares v'Pv");
  sx::check_true(IS->degrees_of_freedom() == o.dof, tag + " degrees of freedom", std::to_string(IS->degrees_of_freedom()) + " vs " + std::to_string(o.dof));
  sx::check_true(IS->null_space() == o.defect, tag + " defect", "");
  if (cofactors) {
    for (int i = 1; i <= n; i++) for (int j = 1; j <= n; j++)
      sx::check_eq(IS->qxx(i, j), sx::constant(o.Qx(colmap[i - 1], colmap[j - 1])), tag + " q_xx " + std::to_string(i) + "," + std::to_string(j));
  }
  sx::reached("net-compare");
}

// ---------------------------------------------------------------------------------------------------
// the steps of gama-local's main() after parsing; results collected by name
struct Res {
  bool adjusted = false; std::string why;
  std::map<std::string, Real> adj;              // "id.T" -> adjusted coordinate in metres
  std::map<int, Real> resid, stdev_obs, wcoef, qbb;   // by index in the input observation order
  std::map<std::string, Real> qxx;              // "id.T|id.T"
  Real vpv, m0; int dof = 0, defect = 0, nunk = 0, nobs = 0;
  std::vector<std::string> removed; std::vector<int> rejected;
};

static std::string uname(LocalNetwork* IS, int i) { return IS->unknown_pointid(i).str() + "." + IS->unknown_type(i); }

static Res run_flow(Built& b, bool want_cof) {
  Res r; LocalNetwork* IS = b.net.IS.get();
  try {
    if (IS->points_count() == 0 || IS->unknowns_count() == 0) { r.why = "no network points defined"; return r; }
    if (IS->huge_abs_terms()) IS->remove_huge_abs_terms();
    // the decision part of GeneralParameters() (results/text/general_parameters.h): the printing part, which
    // searches extreme standardised residuals with data-dependent comparisons, is not executed here
    bool can = true;
    {
      int d = IS->null_space();
      try {
        if (IS->min_n() < d) throw MatVecException(GNU_gama::Exception::BadRegularization, "not enough constrained points");
        IS->trans_VWV();
      } catch (const MatVecException& vs) { if (vs.error() != GNU_gama::Exception::BadRegularization) throw; can = false; }
    }
    { auto c = IS->removed_code.begin(); for (auto i = IS->removed_points.begin(); i != IS->removed_points.end(); ++i, ++c) r.removed.push_back(i->str() + ":" + std::to_string((int)*c)); }
    for (Observation* o : IS->rejected_observations()) for (size_t k = 0; k < b.obs.size(); k++) if (b.obs[k] == o) r.rejected.push_back((int)k);
    if (!can) { r.why = "network can not be adjusted"; return r; }
    IS->refine_adjustment();
    const GNU_gama::local::Vec& x = IS->solve();
    r.nunk = IS->unknowns_count(); r.nobs = IS->observations_count();
    for (int i = 1; i <= r.nunk; i++) {
      char t = IS->unknown_type(i); const LocalPoint& p = IS->PD[IS->unknown_pointid(i)];
      Real base = t == 'X' ? p.x() : t == 'Y' ? p.y() : t == 'Z' ? p.z() : sx::rat(0);
      r.adj[uname(IS, i)] = base + x(i) / sx::rat(1000);
    }
    const GNU_gama::local::Vec& v = IS->residuals();
    for (int i = 1; i <= r.nobs; i++) {
      Observation* o = IS->ptr_obs(i); int k = -1; for (size_t q = 0; q < b.obs.size(); q++) if (b.obs[q] == o) k = (int)q;
      r.resid[k] = v(i);
      if (want_cof) { r.stdev_obs[k] = IS->stdev_obs(i); r.wcoef[k] = IS->wcoef_res(i); r.qbb[k] = IS->qbb(i, i); }
    }
    r.vpv = IS->trans_VWV(); r.dof = IS->degrees_of_freedom(); r.defect = IS->null_space(); r.m0 = IS->m_0();
    if (want_cof) for (int i = 1; i <= r.nunk; i++) for (int j = 1; j <= r.nunk; j++) r.qxx[uname(IS, i) + "|" + uname(IS, j)] = IS->qxx(i, j);
    r.adjusted = true;
  } catch (const GNU_gama::local::Exception& e) { r.why = std::string("exception: ") + e.what(); }
    catch (const GNU_gama::Exception::matvec& e) { r.why = std::string("matvec exception: ") + e.what(); }
  return r;
}

static void same_results(const Res& a, const Res& b, const std::string& tag, bool coords, bool cof, const std::map<int,int>* obsmap = nullptr) {
  sx::check_true(a.adjusted == b.adjusted, tag + " both adjusted or both refused", a.why + " / " + b.why);
  if (!a.adjusted || !b.adjusted) return;
  sx::check_true(a.dof == b.dof, tag + " degrees of freedom", ""); sx::check_true(a.defect == b.defect, tag + " defect", "");
  sx::check_true(a.nobs == b.nobs, tag + " number of observations", "");
  sx::check_eq(a.vpv, b.vpv, tag + " sum of squares");
  for (auto& kv : a.resid) { int k2 = obsmap ? obsmap->at(kv.first) : kv.first; auto it = b.resid.find(k2);
    sx::check_true(it != b.resid.end(), tag + " same observations take part", std::to_string(kv.first)); if (it == b.resid.end()) continue;
    sx::check_eq(kv.second, it->second, tag + " residual of observation " + std::to_string(kv.first + 1));
    if (cof && a.qbb.count(kv.first) && b.qbb.count(k2)) { sx::check_eq(a.qbb.at(kv.first), b.qbb.at(k2), tag + " q_bb of observation " + std::to_string(kv.first + 1));
      sx::check_eq(a.stdev_obs.at(kv.first), b.stdev_obs.at(k2), tag + " stdev of adjusted observation " + std::to_string(kv.first + 1)); } }
  if (coords) {
    sx::check_true(a.adj.size() == b.adj.size(), tag + " same unknowns", "");
    for (auto& kv : a.adj) { auto it = b.adj.find(kv.first); if (it == b.adj.end()) { sx::fail(tag + " unknown missing in the other run", kv.first); continue; } sx::check_eq(kv.second, it->second, tag + " adjusted " + kv.first); }
    if (cof) for (auto& kv : a.qxx) { auto it = b.qxx.find(kv.first); if (it != b.qxx.end()) sx::check_eq(kv.second, it->second, tag + " q_xx " + kv.first); }
  }
  sx::check_true(a.removed == b.removed, tag + " same removed points", ""); sx::check_true(a.rejected == b.rejected, tag + " same rejected observations", "");
}

// ---------------------------------------------------------------------------------------------------
static void case_c01(const Spec& spec, int alg) {
  Built b;
  if (!build(b, spec, ALGS[alg], Q(1, 10))) return;
  make_oracle(b);
  if (!b.orc.resolves) { sx::note("skip", "datum does not resolve the defect"); return; }
  compare_with_oracle(b, ALGS[alg], on("C03"));
  if (on("C03")) {
    // homogenised projector: q_bb(i,i) against  l_i' A Q A' l_i  of the oracle (uncorrelated: p_i (AQA')_ii)
    LocalNetwork* IS = b.net.IS.get(); Oracle& o = b.orc;
    QMat AQAt = qla::mul(qla::mul(o.A, o.Qx), qla::trans(o.A));
    Real tr = sx::rat(0);
    for (int i = 1; i <= IS->observations_count(); i++) tr = tr + IS->qbb(i, i);
    sx::check_eq(tr, sx::rat((int)o.unk.size() - o.defect), std::string(ALGS[alg]) + " redundancy: trace of projector = n - defect");
    bool diagonalP = true; for (int i = 0; i < o.P.r; i++) for (int j = 0; j < o.P.c; j++) if (i != j && o.P(i, j) != 0) diagonalP = false;
    if (diagonalP) for (int i = 1; i <= IS->observations_count(); i++)
      sx::check_eq(IS->qbb(i, i), sx::constant(o.P(i - 1, i - 1) * AQAt(i - 1, i - 1)), std::string(ALGS[alg]) + " q_bb(i,i) = p_i (A Q A')_ii, i=" + std::to_string(i));
  }
}

// C02 at network level: all algorithms in one exploration on shared symbols
static void case_c02(const Spec& spec) {
  std::vector<Res> rs;
  for (int alg = 0; alg < 3; alg++) { Built b; if (!build(b, spec, ALGS[alg], Q(1, 10))) return; rs.push_back(run_flow(b, true)); }
  for (int alg = 1; alg < 3; alg++) same_results(rs[alg], rs[0], std::string(ALGS[alg]) + " vs envelope", true, true);
  sx::reached("net-c02");
}

// C06: observations computed without error from true coordinates; approximate coordinates perturbed / omitted
static void case_c06(const Spec& spec0, int alg, int mode) {
  // mode 0: approximate coordinates = true; 1: perturbed by symbolic offsets; 2: omitted for non-fixed points (approximate-coordinate solver runs)
  Spec spec = spec0;
  if (mode == 2) for (auto& p : spec.pts) { bool free_only = p.fix.empty(); for (char ch : p.adj) if (isupper((unsigned char)ch)) free_only = false; if (free_only) { p.give_xy = false; p.give_z = false; } }
  Built b; if (!build(b, spec, ALGS[alg], Q(0), false)) return;
  LocalNetwork* IS = b.net.IS.get();
  if (mode == 1) {
    int k = 0;
    for (auto& p : spec.pts) if (p.fix.empty()) {
      LocalPoint& lp = IS->PD[PointID(p.id)];
      if (p.has_xy) { Real dx = sx::input("dx" + std::to_string(k)), dy = sx::input("dy" + std::to_string(k)); sx::assume_range(dx, Q(-1, 2), Q(1, 2)); sx::assume_range(dy, Q(-1, 2), Q(1, 2)); lp.set_xy(lp.x() + dx, lp.y() + dy); }
      if (p.has_z) { Real dz = sx::input("dz" + std::to_string(k)); sx::assume_range(dz, Q(-1, 2), Q(1, 2)); lp.set_z(lp.z() + dz); }
      k++;
    }
  }
  if (mode == 2) { Acord2 a(IS->PD, IS->OD); a.execute(); refine_obsdh_reductions(IS); }
  Res r = run_flow(b, false);
  std::string tag = std::string(ALGS[alg]) + " mode" + std::to_string(mode);
  sx::check_true(r.adjusted, tag + " consistent network is adjusted", r.why);
  if (!r.adjusted) return;
  sx::check_true(r.removed.empty(), tag + " no point removed", r.removed.empty() ? "" : r.removed[0]);
  sx::check_true(r.rejected.empty(), tag + " no observation rejected", "");
  for (auto& kv : r.resid) sx::check_zero(kv.second, tag + " residual of observation " + std::to_string(kv.first + 1));
  // adjusted coordinates equal the generating ones (free networks: up to the datum shift, checked through differences)
  bool free_net = r.defect > 0;
  std::string ref_id; Real ref_d[3];
  for (auto& kv : r.adj) {
    std::string id = kv.first.substr(0, kv.first.size() - 2); char t = kv.first.back(); const Pt* p = spec.pt(id);
    Q truth = t == 'X' ? p->x : t == 'Y' ? p->y : p->z;
    if (!free_net) sx::check_eq(kv.second, sx::constant(truth), tag + " adjusted " + kv.first + " equals the generating coordinate");
  }
  if (free_net) {
    std::map<char, std::pair<Real, bool>> shift;
    for (auto& kv : r.adj) { std::string id = kv.first.substr(0, kv.first.size() - 2); char t = kv.first.back(); const Pt* p = spec.pt(id);
      Q truth = t == 'X' ? p->x : t == 'Y' ? p->y : p->z; Real d = kv.second - sx::constant(truth);
      if (!shift.count(t)) shift[t] = {d, true}; else sx::check_eq(d, shift[t].first, tag + " adjusted " + kv.first + " differs from the generating one by the common datum shift"); }
  }
  sx::check_zero(r.vpv, tag + " sum of squares");
  sx::reached("net-c06");
}

// C07: equivalent descriptions.  variant 1: translation by a symbolic vector; 2: reversed order of points/clusters/observations;
// 3: renamed points (reverses the id order); 4: ends of height differences / vectors swapped
static Spec transform(const Spec& s, int variant, std::map<int,int>& obsmap) {
  Spec t = s; obsmap.clear();
  size_t nobs = 0; for (auto& c : s.cl) nobs += c.obs.size();
  for (size_t k = 0; k < nobs; k++) obsmap[(int)k] = (int)k;
  if (variant == 2) {
    std::reverse(t.pts.begin(), t.pts.end());
    // clusters reversed; inside a cluster the order is kept when it carries a covariance matrix
    std::vector<int> start; int k = 0; for (auto& c : s.cl) { start.push_back(k); k += (int)c.obs.size(); }
    std::reverse(t.cl.begin(), t.cl.end());
    int pos = 0;
    for (int ci = (int)s.cl.size() - 1; ci >= 0; ci--) { for (size_t i = 0; i < s.cl[ci].obs.size(); i++) obsmap[start[ci] + (int)i] = pos++; }
  } else if (variant == 3) {
    std::map<std::string, std::string> ren; int n = (int)s.pts.size();
    for (int i = 0; i < n; i++) ren[s.pts[i].id] = std::string("p") + (char)('a' + (n - 1 - i)) + "\xc3\xa9";   // non-ASCII, reversed order
    for (auto& p : t.pts) p.id = ren[p.id];
    for (auto& c : t.cl) for (auto& o : c.obs) { if (!o.from.empty()) o.from = ren[o.from]; if (!o.to.empty()) o.to = ren[o.to]; }
  } else if (variant == 4) {
    for (auto& c : t.cl) if (c.kind == Cluster::HD || c.kind == Cluster::VEC) for (auto& o : c.obs) { std::swap(o.from, o.to); o.val = -o.val; }
  }
  else if (variant == 5) {
    // the same survey written in the frame "en" (x to the east, y to the north) instead of "ne": x and y exchanged in the coordinates of
    // every point and in the components of every vector / observed coordinate, the covariance matrices permuted accordingly
    t.axes = "en";
    for (auto& p : t.pts) { std::swap(p.x, p.y); std::swap(p.ax, p.ay); }
    int start = 0;
    for (auto& c : t.cl) { int n = (int)c.obs.size(); std::vector<int> perm(n); for (int i = 0; i < n; i++) perm[i] = i;        // new position i holds old observation perm[i]
      for (int i = 0; i < n; i++) { const Obs& o = c.obs[i]; if (o.t != XDIFF && o.t != CX) continue;
        for (int j = 0; j < n; j++) { const Obs& u = c.obs[j]; if (u.t == (o.t == XDIFF ? YDIFF : CY) && u.from == o.from && u.to == o.to) { perm[i] = j; perm[j] = i; } } }
      Cluster old = c; QMat C0; if (old.has_cov) C0 = cov_of(old);
      for (int i = 0; i < n; i++) { c.obs[i].val = old.obs[perm[i]].val; c.obs[i].stdev = old.obs[perm[i]].stdev; obsmap[start + perm[i]] = start + i; }
      if (old.has_cov) { c.has_C = true; c.C = QMat(n, n); int band = 0; for (int i = 0; i < n; i++) for (int j = 0; j < n; j++) { c.C(i, j) = C0(perm[i], perm[j]); if (c.C(i, j) != 0) band = std::max(band, std::abs(i - j)); } c.band = band; }
      start += n; }
  }
  return t;
}
static void case_c07(const Spec& spec, int alg, int variant) {
  std::map<int,int> obsmap; Spec spec2 = transform(spec, variant, obsmap);
  Built a, b;
  if (!build(a, spec, ALGS[alg], Q(1, 10))) return;
  // second network: same symbolic errors on corresponding observations
  b.spec = spec2; if (!b.net.parse(gkf(spec2))) { sx::fail("transformed input rejected", b.net.parse_error); return; }
  b.obs = b.net.all_obs(); b.val.assign(b.obs.size(), sx::rat(0)); b.active.assign(b.obs.size(), true);
  for (auto& kv : obsmap) { Real v = a.val[kv.first]; if (variant == 4) { OType t = otype(a.obs[kv.first]); if (t == HDIFF || t == XDIFF || t == YDIFF || t == ZDIFF) v = -v; } b.val[kv.second] = v; b.obs[kv.second]->set_value(v); }
  b.net.prepare(ALGS[alg], false);
  Real tx = sx::rat(0), ty = sx::rat(0), tz = sx::rat(0);
  if (variant == 1) {
    tx = sx::input("tx"); ty = sx::input("ty"); tz = sx::input("tz");
    for (auto it = b.net.IS->PD.begin(); it != b.net.IS->PD.end(); ++it) { LocalPoint& p = it->second; if (p.test_xy()) p.set_xy(p.x() + tx, p.y() + ty); if (p.test_z()) p.set_z(p.z() + tz); }
    size_t k = 0; for (auto& c : spec2.cl) for (auto& o : c.obs) { if (o.t == CX) { b.val[k] = b.val[k] + tx; b.obs[k]->set_value(b.val[k]); } if (o.t == CY) { b.val[k] = b.val[k] + ty; b.obs[k]->set_value(b.val[k]); } if (o.t == CZ) { b.val[k] = b.val[k] + tz; b.obs[k]->set_value(b.val[k]); } k++; }
  }
  Res ra = run_flow(a, true), rb = run_flow(b, true);
  std::string tag = std::string(ALGS[alg]) + " variant" + std::to_string(variant);
  sx::check_true(ra.adjusted && rb.adjusted, tag + " both adjusted", ra.why + " / " + rb.why);
  if (!ra.adjusted || !rb.adjusted) return;
  // residuals (sign flips with swapped ends), statistics
  std::map<int,int> inv; for (auto& kv : obsmap) inv[kv.first] = kv.second;
  sx::check_true(ra.dof == rb.dof && ra.defect == rb.defect && ra.nobs == rb.nobs, tag + " counts", "");
  sx::check_eq(ra.vpv, rb.vpv, tag + " sum of squares");
  for (auto& kv : ra.resid) { auto it = rb.resid.find(inv[kv.first]); if (it == rb.resid.end()) { sx::fail(tag + " observation missing", ""); continue; }
    Real v2 = it->second; if (variant == 4) { OType t = otype(a.obs[kv.first]); if (t == HDIFF || t == XDIFF || t == YDIFF || t == ZDIFF) v2 = -v2; }
    if (variant == 5) { OType t = otype(b.obs[it->first]); if (t == YDIFF || t == CY) v2 = -v2; }      // network b works on the mirrored y internally
    sx::check_eq(kv.second, v2, tag + " residual " + std::to_string(kv.first + 1));
    bool corr = a.obs[kv.first]->ptr_cluster()->covariance_matrix.bandWidth() > 0;
    sx::check_eq(ra.stdev_obs.at(kv.first), rb.stdev_obs.at(it->first), tag + " stdev of adjusted observation " + std::to_string(kv.first + 1) + (corr ? " (correlated cluster)" : "")); }
  // coordinates
  std::map<std::string, std::string> ren; for (size_t i = 0; i < spec.pts.size(); i++) { std::string id2 = spec.pts[i].id; if (variant == 3) { int n = (int)spec.pts.size(); id2 = std::string("p") + (char)('a' + (n - 1 - (int)i)) + "\xc3\xa9"; } ren[spec.pts[i].id] = id2; }
  // variant 5: a's X (north) is b's Y, held internally with the opposite sign; a's Y (east) is b's X
  auto t2 = [&](char t) { return variant == 5 ? (t == 'X' ? 'Y' : t == 'Y' ? 'X' : t) : t; };
  auto sg = [&](char t) { return (variant == 5 && t == 'X') ? sx::rat(-1) : sx::rat(1); };
  for (auto& kv : ra.adj) { std::string id = kv.first.substr(0, kv.first.size() - 2); char t = kv.first.back(); auto it = rb.adj.find(ren[id] + "." + t2(t));
    if (it == rb.adj.end()) { sx::fail(tag + " unknown missing", kv.first); continue; }
    Real shift = t == 'X' ? tx : t == 'Y' ? ty : tz; sx::check_eq(kv.second + shift, sg(t) * it->second, tag + " adjusted " + kv.first); }
  for (auto& kv : ra.qxx) { size_t bar = kv.first.find('|'); std::string u1 = kv.first.substr(0, bar), u2 = kv.first.substr(bar + 1);
    auto nm = [&](const std::string& u) { return ren[u.substr(0, u.size() - 2)] + "." + t2(u.back()); };
    auto it = rb.qxx.find(nm(u1) + "|" + nm(u2)); if (it == rb.qxx.end()) it = rb.qxx.find(nm(u2) + "|" + nm(u1));
    if (it != rb.qxx.end()) sx::check_eq(kv.second, sg(u1.back()) * sg(u2.back()) * it->second, tag + " q_xx " + kv.first); }
  sx::reached("net-c07");
}

// C08: datum choice.  The same free network with different sets of constrained points.
static void case_c08(const Spec& spec, int alg, const std::vector<std::string>& statuses) {
  std::vector<Res> rs; std::vector<Spec> specs;
  for (auto& st : statuses) {
    Spec s = spec; for (size_t i = 0; i < s.pts.size(); i++) { std::string& adj = s.pts[i].adj; std::string low; for (char ch : adj) low += (char)tolower(ch); std::string up; for (char ch : adj) up += (char)toupper(ch); adj = st[i] == 'c' ? up : low;
      // mixed status of one point: 'z' = height constrained, position free ("xyZ"); 'p' = position constrained, height free ("XYz")
      if (st[i] == 'z' || st[i] == 'p') { std::string m; for (char ch : low) m += ((ch == 'z') == (st[i] == 'z')) ? (char)toupper(ch) : ch; adj = m; } }
    Built b; if (!build(b, s, ALGS[alg], Q(1, 10))) return;
    make_oracle(b);
    if (!b.orc.resolves) { sx::note("skip", "constraint set does not resolve the defect: " + st); return; }
    Res r = run_flow(b, true);
    std::string tag = std::string(ALGS[alg]) + " datum " + st;
    sx::check_true(r.adjusted, tag + " adjusted", r.why); if (!r.adjusted) return;
    // within the run: corrections of constrained coordinates orthogonal to the datum transformations and the solution is the oracle's
    LocalNetwork* IS = b.net.IS.get(); const GNU_gama::local::Vec& x = IS->solve();
    for (int k = 0; k < b.orc.defect; k++) { Real t = sx::rat(0);
      for (int i = 1; i <= IS->unknowns_count(); i++) { int c = b.orc.col(IS->unknown_pointid(i).str(), IS->unknown_type(i)); if (c < 0) continue; if (std::find(b.S.begin(), b.S.end(), c) != b.S.end()) t = t + sx::constant(b.orc.G(c, k)) * x(i); }
      sx::check_zero(t, tag + " corrections of constrained coordinates orthogonal to datum transformation " + std::to_string(k + 1)); }
    for (int i = 1; i <= IS->unknowns_count(); i++) { int c = b.orc.col(IS->unknown_pointid(i).str(), IS->unknown_type(i)); if (c >= 0) sx::check_eq(x(i), b.orc.x[c], tag + " correction " + uname(IS, i) + " is the constrained minimum"); }
    rs.push_back(r); specs.push_back(s);
  }
  for (size_t i = 1; i < rs.size(); i++) {
    std::string tag = std::string(ALGS[alg]) + " datum " + statuses[i] + " vs " + statuses[0];
    same_results(rs[i], rs[0], tag, false, true);
    // inter-point coordinate differences
    for (auto& a : rs[0].adj) for (auto& c : rs[0].adj) { if (a.first >= c.first || a.first.back() != c.first.back()) continue;
      if (!rs[i].adj.count(a.first) || !rs[i].adj.count(c.first)) continue;
      sx::check_eq(a.second - c.second, rs[i].adj.at(a.first) - rs[i].adj.at(c.first), tag + " difference " + a.first + " - " + c.first); }
  }
  sx::reached("net-c08");
}

// C10: (1) diagonal cov-mat == per-observation stdev ; (2) passive observations of a correlated cluster == input with them deleted
static void case_c10_diag(const Spec& spec, int alg) {
  Spec s2 = spec; for (auto& c : s2.cl) if (c.kind == Cluster::HD && !c.has_cov) { c.has_cov = true; c.band = 0; }
  Built a, b; if (!build(a, spec, ALGS[alg], Q(1, 10))) return;
  b.spec = s2; if (!b.net.parse(gkf(s2))) { sx::fail("input with diagonal cov-mat rejected", b.net.parse_error); return; }
  b.obs = b.net.all_obs(); b.val = a.val; b.active.assign(b.obs.size(), true); for (size_t k = 0; k < b.obs.size(); k++) b.obs[k]->set_value(b.val[k]);
  b.net.prepare(ALGS[alg], false);
  Res ra = run_flow(a, true), rb = run_flow(b, true);
  same_results(ra, rb, std::string(ALGS[alg]) + " stdev vs diagonal cov-mat", true, true);
  sx::reached("net-c10");
}
static void case_c10_passive(const Spec& spec, int alg, int cluster, unsigned mask) {
  // observations of `cluster` whose bit is set in mask are made passive
  Built a; if (!build(a, spec, ALGS[alg], Q(1, 10))) return;
  size_t start = 0; for (int c = 0; c < cluster; c++) start += spec.cl[c].obs.size();
  size_t n = spec.cl[cluster].obs.size();
  for (size_t i = 0; i < n; i++) if (mask & (1u << i)) { a.obs[start + i]->set_passive(); a.active[start + i] = false; }
  a.net.IS->update_observations();
  make_oracle(a);
  std::string tag = std::string(ALGS[alg]) + " passive mask " + std::to_string(mask);
  if (!a.orc.resolves || a.orc.A.r == 0) { sx::note("skip", "reduced network not determined"); return; }
  // oracle uses the sub-matrix of the active observations: results must equal it
  LocalNetwork* IS = a.net.IS.get();
  try {
    const GNU_gama::local::Vec& x = IS->solve();
    int nu = IS->unknowns_count();
    if (nu != (int)a.orc.unk.size()) { sx::note("skip", "a point lost all its observations"); return; }
    for (int i = 1; i <= nu; i++) { int c = a.orc.col(IS->unknown_pointid(i).str(), IS->unknown_type(i)); sx::check_true(c >= 0, tag + " unknown expected", ""); if (c >= 0) sx::check_eq(x(i), a.orc.x[c], tag + " correction " + uname(IS, i)); }
    const GNU_gama::local::Vec& v = IS->residuals();
    sx::check_true(IS->observations_count() == a.orc.A.r, tag + " number of active observations", "");
    if (IS->observations_count() == a.orc.A.r) for (int i = 1; i <= IS->observations_count(); i++) sx::check_eq(v(i), a.orc.r[i - 1], tag + " residual " + std::to_string(i));
    sx::check_eq(IS->trans_VWV(), a.orc.vpv, tag + " sum of squares uses the sub-matrix of the covariance");
  } catch (const GNU_gama::Exception::matvec& e) { sx::fail(tag + " unexpected exception", e.what()); }
  sx::reached("net-c10p");
}
// malformed covariance matrices are rejected by the parser
static void case_c10_reject(int kind) {
  qla::Rng rng(7); Spec s = levelling("rej", 4, {{1,2},{2,3},{3,4},{4,1}}, "faaa", rng, 2);
  std::string text = gkf(s);
  std::string bad = text; size_t p = bad.find("<cov-mat dim=\"4\"");
  if (kind == 0) bad.replace(p, 16, "<cov-mat dim=\"3\"");                       // dimension mismatch
  else if (kind == 1) { size_t q = bad.find('\n', p) + 1; size_t e = bad.find(' ', q); bad.replace(q, e - q, "-1"); }   // negative variance
  else if (kind == 2) { size_t q = bad.find('\n', p) + 1; size_t e = bad.find(' ', q); bad.replace(q, e - q, "0"); }    // zero variance
  else if (kind == 3) { size_t q = bad.find('\n', p) + 1; size_t e = bad.find(' ', q); size_t e2 = bad.find(' ', e + 1); bad.replace(e + 1, e2 - e - 1, "1000"); } // indefinite: huge covariance
  Net n; bool ok = n.parse(bad);
  if (ok) {
    // not rejected at parse time: every algorithm must then refuse it with a diagnostic rather than adjust
    for (int alg = 0; alg < 3; alg++) { Net m; m.parse(bad); m.prepare(ALGS[alg], false); bool threw = false;
      try { m.IS->solve(); } catch (const GNU_gama::local::Exception&) { threw = true; } catch (const GNU_gama::Exception::matvec&) { threw = true; }
      sx::check_true(threw, std::string(ALGS[alg]) + " malformed covariance matrix kind " + std::to_string(kind) + " is rejected", "accepted by the parser and adjusted"); }
  }
  sx::reached("net-c10r");
}

// C14: an observation is excluded for a gross absolute term exactly when it exceeds tol-abs, and then the results equal deletion
static void case_c14(const Spec& spec, int alg, int target) {
  Built b; if (!build(b, spec, ALGS[alg], Q(1, 10))) return;
  // the targeted observation gets an unbounded symbolic error
  Real g = sx::input("gross"); b.val[target] = b.val[target] - sx::input("e" + std::to_string(target + 1)) + g; b.obs[target]->set_value(b.val[target]);
  LocalNetwork* IS = b.net.IS.get();
  Res r = run_flow(b, false);
  std::string tag = std::string(ALGS[alg]) + " gross error in observation " + std::to_string(target + 1);
  bool rejected = std::find(r.rejected.begin(), r.rejected.end(), target) != r.rejected.end();
  Real tol = sx::constant(spec.tol_abs);
  Real absterm = fabs(g * sx::rat(1000));           // linear types: |observed - computed| in mm; computed from the generating coordinates
  if (rejected) { sx::check_lt(tol, absterm, tag + " rejected only if |abs.term| > tol-abs"); b.active[target] = false; }
  else sx::check_le(absterm, tol, tag + " kept only if |abs.term| <= tol-abs");
  sx::check_true(r.adjusted, tag + " network adjusted", r.why); if (!r.adjusted) return;
  make_oracle(b);
  if (!b.orc.resolves) return;
  if ((int)b.orc.unk.size() != r.nunk) { sx::note("skip", "a point lost its observations"); return; }
  for (auto& kv : r.resid) { int row = 0; for (int k = 0; k < kv.first; k++) if (b.active[k]) row++; sx::check_eq(kv.second, b.orc.r[row], tag + " residual " + std::to_string(kv.first + 1) + " equals the adjustment without the rejected observation"); }
  sx::check_eq(r.vpv, b.orc.vpv, tag + " sum of squares"); sx::check_true(r.dof == b.orc.dof, tag + " degrees of freedom", "");
  sx::reached(rejected ? "net-c14-rejected" : "net-c14-kept");
}


// C09: reported statistics are consistent with the adjustment they describe
#include <gnu_gama/statan.h>
#include <gnu_gama/xml/localnetwork_adjustment_results.h>
static void case_c09(const Spec& spec0, int alg, const std::string& sigma_act, const Q& conf, const Q& sigma_apr2) {
  Spec spec = spec0; spec.sigma_act = sigma_act; spec.conf_pr = conf;
  Built b; if (!build(b, spec, ALGS[alg], Q(1, 10))) return;
  make_oracle(b); if (!b.orc.resolves) return;
  LocalNetwork* IS = b.net.IS.get(); Oracle& o = b.orc;
  std::string tag = std::string(ALGS[alg]) + " " + sigma_act;
  Res r = run_flow(b, true);
  sx::check_true(r.adjusted, tag + " adjusted", r.why); if (!r.adjusted) return;
  int n = IS->unknowns_count(), m = IS->observations_count(), dof = IS->degrees_of_freedom();
  sx::check_true(dof == m - n + IS->null_space(), tag + " dof = observations - unknowns + defect", "");
  sx::check_true(dof == o.dof, tag + " dof equals the oracle's", "");
  Real m0a = IS->m_0_aposteriori_value();
  if (dof > 0) sx::check_eq(m0a * m0a * sx::rat(dof), IS->trans_VWV(), tag + " m0(aposteriori)^2 * dof = v'Pv"); else sx::check_zero(m0a, tag + " m0(aposteriori) = 0 when dof = 0");
  sx::check_ge0(m0a, tag + " m0(aposteriori) >= 0");
  sx::check_eq(IS->trans_VWV(), o.vpv, tag + " v'Pv equals the oracle's");
  Real m0 = IS->m_0();
  if (sigma_act == "apriori") sx::check_eq(m0, sx::constant(spec.sigma_apr), tag + " m0 = sigma-apr"); else sx::check_eq(m0, m0a, tag + " m0 = aposteriori value");
  // standard deviations of unknowns
  std::vector<int> colmap(n);
  for (int i = 1; i <= n; i++) { int c = o.col(IS->unknown_pointid(i).str(), IS->unknown_type(i)); colmap[i - 1] = c; if (c < 0) { sx::fail(tag + " unexpected unknown", ""); return; }
    Real sd = IS->unknown_stdev(i); sx::check_eq(sd * sd, m0 * m0 * sx::constant(o.Qx(c, c)), tag + " stdev(" + uname(IS, i) + ")^2 = m0^2 q_xx"); sx::check_ge0(sd, tag + " stdev >= 0"); }
  // adjusted observations and residual cofactors (oracle: A Q A')
  QMat AQAt = qla::mul(qla::mul(o.A, o.Qx), qla::trans(o.A));
  size_t k0 = 0; std::vector<bool> correlated;
  for (auto& c : spec.cl) { bool corr = c.has_cov && c.band > 0; for (size_t i = 0; i < c.obs.size(); i++) correlated.push_back(corr); }
  for (int i = 1; i <= m; i++) {
    Observation* ob = IS->ptr_obs(i); int k = -1; for (size_t q = 0; q < b.obs.size(); q++) if (b.obs[q] == ob) k = (int)q;
    Real sL = IS->stdev_obs(i);
    std::string what = correlated[k] ? " (correlated cluster)" : "";
    sx::check_eq(sL * sL, m0 * m0 * sx::constant(AQAt(i - 1, i - 1)), tag + " stdev of adjusted observation " + std::to_string(i) + what + ": sL^2 = m0^2 (A Q A')_ii");
    if (!correlated[k]) {
      Real p = IS->weight_obs(i);
      sx::check_eq(p, sx::constant(o.P(i - 1, i - 1)), tag + " weight of observation " + std::to_string(i));
      sx::check_eq(IS->wcoef_res(i), sx::rat(1) / p - sx::constant(AQAt(i - 1, i - 1)), tag + " residual cofactor = 1/p - q_L, observation " + std::to_string(i));
    }
  }
  // confidence coefficient: the same function application as the documented one
  Real coef = IS->conf_int_coef(); Real prob = (sx::rat(1) - IS->conf_pr()) / sx::rat(2);
  if (sigma_act == "apriori") sx::check_eq(coef, GNU_gama::Normal(prob), tag + " confidence coefficient = Normal((1-p)/2)");
  else if (dof > 0) sx::check_eq(coef, GNU_gama::Student(prob, dof), tag + " confidence coefficient = Student((1-p)/2, dof)");
  else sx::check_zero(coef, tag + " confidence coefficient 0 when dof = 0");
  // error ellipses of points with x and y unknown
  for (auto& p : spec.pts) {
    int cx = o.col(p.id, 'X'), cy = o.col(p.id, 'Y'); if (cx < 0 || cy < 0) continue;
    Real a, bb, alfa; IS->std_error_ellipse(PointID(p.id), a, bb, alfa);
    Real cxx = sx::constant(o.Qx(cx, cx)), cyy = sx::constant(o.Qx(cy, cy)), cxy = sx::constant(o.Qx(cx, cy));
    std::string t2 = tag + " ellipse of " + p.id;
    sx::check_eq(a * a + bb * bb, m0 * m0 * (cxx + cyy), t2 + ": a^2 + b^2 = m0^2 trace");
    sx::check_eq(a * a * bb * bb, m0 * m0 * m0 * m0 * (cxx * cyy - cxy * cxy), t2 + ": a^2 b^2 = m0^4 det");
    sx::check_ge0(bb, t2 + ": b >= 0"); sx::check_ge0(a, t2 + ": a >= 0");
    if (sx::is_const(m0)) sx::check_le(bb, a, t2 + ": a >= b");   // with a symbolic m0 the order follows from a^2-b^2 = m0^2*sqrt(.) >= 0, which z3 does not decide in 20 s: not queried
    sx::check_ge0(alfa, t2 + ": bearing >= 0"); sx::check_lt(alfa, sx::constant(mpq_class(M_PI)), t2 + ": bearing < pi");
    Real s2 = sin(alfa + alfa), c2 = cos(alfa + alfa);
    sx::check_zero((cxx - cyy) * s2 - sx::rat(2) * cxy * c2, t2 + ": bearing is an eigen-direction");
    sx::check_ge0((cxx - cyy) * c2 + sx::rat(2) * cxy * s2, t2 + ": bearing belongs to the major axis");
  }
  // changing only sigma-apr rescales v'Pv and nothing else
  if (sigma_apr2 != 0) {
    Spec s2 = spec; s2.sigma_apr = sigma_apr2; Built c; c.spec = s2;
    if (!c.net.parse(gkf(s2))) { sx::fail(tag + " second sigma-apr rejected", ""); return; }
    c.obs = c.net.all_obs(); c.val = b.val; c.active.assign(c.obs.size(), true); for (size_t q = 0; q < c.obs.size(); q++) c.obs[q]->set_value(c.val[q]);
    c.net.prepare(ALGS[alg], false);
    Res r2 = run_flow(c, true); sx::check_true(r2.adjusted, tag + " adjusted with the other sigma-apr", r2.why); if (!r2.adjusted) return;
    Q ratio = (spec.sigma_apr / sigma_apr2); Real rr = sx::constant(ratio * ratio);
    sx::check_eq(r.vpv, r2.vpv * rr, tag + " v'Pv scales with sigma-apr^2");
    for (auto& kv : r.adj) sx::check_eq(kv.second, r2.adj.at(kv.first), tag + " adjusted " + kv.first + " independent of sigma-apr");
    for (auto& kv : r.resid) sx::check_eq(kv.second, r2.resid.at(kv.first), tag + " residual independent of sigma-apr");
    sx::check_true(r.dof == r2.dof, tag + " dof independent of sigma-apr", "");
    if (sigma_act == "aposteriori") { sx::check_eq(r.m0, r2.m0 * sx::constant(ratio), tag + " aposteriori m0 scales with sigma-apr");   // m0 is relative to the a priori unit weight
      for (auto& kv : r.stdev_obs) sx::check_eq(kv.second, r2.stdev_obs.at(kv.first), tag + " stdev of adjusted observation independent of sigma-apr"); }
  }
  sx::reached("net-c09");
}




// equality "to the printed precision": symbolic numbers travel exactly (reserved literals), constants are printed in
// decimal by the real writer and compared with a relative tolerance of 1e-6 of the printed precision
static void same_printed(Real got, Real want, const std::string& label, sx::f64 abs_tol = 0) {
  if (sx::is_const(got) && sx::is_const(want)) { sx::f64 a = sx::numeric(got), b = sx::numeric(want); sx::f64 sc = ::fabs(b) > 1 ? ::fabs(b) : 1;
    sx::check_true(::fabs(a - b) <= (abs_tol > 0 ? abs_tol : (sx::f64)1e-6 * sc), label + " (to the printed precision)", sx::show(got) + " vs " + sx::show(want)); }
  else sx::check_eq(got, want, label);
}

// C05 at network level: the equations LocalNetwork::project_equations(A,b,w) hands out for a network given in any axes orientation /
// angle handedness equal those of the same network written in the reference frame (axes "ne", left-handed angles): gama's documented
// convention is that only handedness matters and an inconsistent combination is handled by mirroring every y (coordinates of all points
// with x,y, whatever their status, and Y / dY observations).  The coefficient formulas themselves are decided in harness "lin".
static std::string c05_gkf(const std::string& axes, const std::string& angles, int ysign, int variant, Q azimuth = Q(851, 4)) {
  auto q = [](Q v) { return qstr(v); };
  struct P { const char* id; Q x, y, z; const char* status; };
  std::vector<P> pts{{"A", 0, 0, 0, "fix=\"xyz\""}, {"B", Q(201, 2), Q(121, 4), 5, "adj=\"xyz\""}, {"C", -40, Q(141, 2), Q(-7, 2), variant == 1 ? "adj=\"XYz\"" : "adj=\"xyz\""},
                     {"P", Q(81, 4), Q(-121, 2), 12, "adj=\"z\""}, {"Q", Q(-33, 2), Q(-35, 4), Q(9, 2), "fix=\"z\""}, {"D", 60, Q(-81, 4), 2, "fix=\"xy\" adj=\"z\""}};
  std::ostringstream o;
  o << "<?xml version=\"1.0\" ?>\n<gama-local xmlns=\"http://www.gnu.org/software/gama/gama-local\">\n<network axes-xy=\"" << axes << "\" angles=\"" << angles << "\">\n<description>c05</description>\n"
    << "<parameters sigma-apr=\"10\" conf-pr=\"0.95\" tol-abs=\"10000000\" sigma-act=\"apriori\" />\n<points-observations>\n";
  for (auto& p : pts) o << "<point id=\"" << p.id << "\" x=\"" << q(p.x) << "\" y=\"" << q(p.y * ysign) << "\" z=\"" << q(p.z) << "\" " << p.status << " />\n";
  o << "<obs from=\"A\">\n<direction to=\"B\" val=\"18.2500\" stdev=\"10\" />\n<direction to=\"C\" val=\"140.5000\" stdev=\"10\" />\n<direction to=\"D\" val=\"371.7500\" stdev=\"10\" />\n"
       "<distance to=\"B\" val=\"104.875\" stdev=\"5\" />\n<s-distance to=\"C\" val=\"81.125\" stdev=\"5\" />\n<z-angle to=\"P\" val=\"88.2500\" stdev=\"12\" />\n<z-angle to=\"Q\" val=\"86.7500\" stdev=\"12\" />\n"
       "<z-angle to=\"B\" val=\"96.5000\" stdev=\"12\" />\n<angle bs=\"B\" fs=\"C\" val=\"122.5000\" stdev=\"15\" />\n</obs>\n";
  o << "<obs from=\"B\">\n<direction to=\"A\" val=\"0\" stdev=\"10\" />\n<direction to=\"C\" val=\"77.1250\" stdev=\"10\" />\n<distance to=\"C\" val=\"151.5\" stdev=\"5\" />\n<distance to=\"D\" val=\"64.75\" stdev=\"5\" />\n</obs>\n";
  o << "<obs from=\"P\">\n<z-angle to=\"B\" val=\"104.1250\" stdev=\"12\" />\n<z-angle to=\"C\" val=\"106.5000\" stdev=\"12\" />\n<z-angle to=\"D\" val=\"110.2500\" stdev=\"12\" />\n</obs>\n";
  o << "<obs from=\"Q\">\n<z-angle to=\"C\" val=\"103.5000\" stdev=\"12\" />\n</obs>\n";
  if (variant != 2) o << "<obs from=\"C\">\n<azimuth to=\"B\" val=\"" << q(azimuth) << "\" stdev=\"20\" />\n</obs>\n";
  o << "<coordinates>\n<point id=\"B\" x=\"" << q(Q(804, 8)) << "\" y=\"" << q(Q(243, 8) * ysign) << "\" z=\"5.125\" />\n<cov-mat dim=\"3\" band=\"0\">\n4 4 9\n</cov-mat>\n</coordinates>\n";
  o << "<vectors>\n<vec from=\"A\" to=\"C\" dx=\"-40.125\" dy=\"" << q(Q(565, 8) * ysign) << "\" dz=\"-3.375\" />\n<cov-mat dim=\"3\" band=\"0\">\n4 4 9\n</cov-mat>\n</vectors>\n";
  o << "<height-differences>\n<dh from=\"A\" to=\"P\" val=\"12.125\" stdev=\"3\" />\n<dh from=\"D\" to=\"P\" val=\"9.875\" stdev=\"3\" />\n</height-differences>\n";
  o << "</points-observations>\n</network>\n</gama-local>\n";
  return o.str();
}
static std::string c05_name(Observation* o) {
  if (dynamic_cast<Direction*>(o)) return "direction"; if (dynamic_cast<S_Distance*>(o)) return "s-distance"; if (dynamic_cast<Distance*>(o)) return "distance"; if (dynamic_cast<Z_Angle*>(o)) return "z-angle";
  if (dynamic_cast<Azimuth*>(o)) return "azimuth"; if (dynamic_cast<Angle*>(o)) return "angle"; if (dynamic_cast<H_Diff*>(o)) return "dh"; if (dynamic_cast<Xdiff*>(o)) return "dx"; if (dynamic_cast<Ydiff*>(o)) return "dy";
  if (dynamic_cast<Zdiff*>(o)) return "dz"; if (dynamic_cast<X*>(o)) return "x"; if (dynamic_cast<Y*>(o)) return "y"; if (dynamic_cast<Z*>(o)) return "z"; return "?";
}
static void case_c05_net(const std::string& axes, const std::string& angles, int variant, int alg) {
  bool rh_axes = (axes == "en" || axes == "nw" || axes == "se" || axes == "ws"), rh_angles = (angles == "right-handed");
  bool inconsistent = rh_axes != rh_angles;
  Net n1, n2;
  if (!n1.parse(c05_gkf(axes, angles, 1, variant))) { sx::fail("generated input rejected", n1.parse_error); return; }
  // an azimuth is counted from north in the sense of the observed angles; the reference frame has its x axis on north, so the same
  // sight has there the azimuth reduced by the azimuth of this frame's x axis (n 0, e 100, s 200, w 300 gon clockwise)
  int xaz = axes[0] == 'n' ? 0 : axes[0] == 'e' ? 100 : axes[0] == 's' ? 200 : 300; if (rh_angles) xaz = (400 - xaz) % 400;
  Q az2 = Q(851, 4) - xaz; if (az2 < 0) az2 += 400;
  if (!n2.parse(c05_gkf("ne", "left-handed", inconsistent ? -1 : 1, variant, az2))) { sx::fail("generated reference input rejected", n2.parse_error); return; }
  // symbolic part: the observed values of the length-like observations (the geometry is concrete: with symbolic coordinates the
  // gross-error test |rhs| > tol-abs on square-root / arc-cosine terms is beyond the solver, see DESIGN.md "tried")
  {
    std::vector<Observation*> o1 = n1.all_obs(), o2 = n2.all_obs();
    for (size_t i = 0; i < o1.size() && i < o2.size(); i++) { std::string t = c05_name(o1[i]); if (t == "y" || t == "dy" || t == "direction" || t == "angle" || t == "azimuth" || t == "z-angle") continue;
      Real dv = sx::input("v" + std::to_string(i)); sx::assume_range(dv, mpq_class(-1, 100), mpq_class(1, 100)); Real v = o1[i]->value() + dv; o1[i]->set_value(v); o2[i]->set_value(v); } }
  n1.prepare(ALGS[alg], true); n2.prepare(ALGS[alg], true);
  GNU_gama::local::Mat A1, A2; GNU_gama::local::Vec b1, b2, w1, w2;
  n1.IS->project_equations(A1, b1, w1); n2.IS->project_equations(A2, b2, w2);
  std::string tag = "axes " + axes + ", " + angles + " angles";
  sx::check_true(A1.rows() == A2.rows() && A1.cols() == A2.cols() && A1.rows() >= 20, tag + ": same number of equations and unknowns as in the reference frame", std::to_string(A1.rows()) + "x" + std::to_string(A1.cols()));
  if (A1.rows() != A2.rows() || A1.cols() != A2.cols()) return;
  for (int j = 1; j <= A1.cols(); j++) sx::check_true(n1.IS->unknown_type(j) == n2.IS->unknown_type(j) && n1.IS->unknown_pointid(j) == n2.IS->unknown_pointid(j), tag + ": unknown " + std::to_string(j) + " is the same quantity", "");
  for (int i = 1; i <= A1.rows(); i++) {
    std::string row = tag + ": " + c05_name(n1.IS->ptr_obs(i)) + " equation";
    sx::check_eq(b1(i), b2(i), row + " right-hand side equals that of the reference frame"); sx::check_eq(w1(i), w2(i), row + " weight");
    for (int j = 1; j <= A1.cols(); j++) sx::check_eq(A1(i, j), A2(i, j), row + " coefficient of " + std::string(1, n1.IS->unknown_type(j)));
  }
  sx::reached("net-c05");
}

// C04 at network level: every quantity a LocalNetwork can be asked for has one value whatever was asked before
struct NOp { std::string name; int kind; int a = 0; };   // kind 0..: queries ; 20.. state changes
static std::vector<Real> net_ask(Built& b, const NOp& o) {
  LocalNetwork* IS = b.net.IS.get(); std::vector<Real> v;
  switch (o.kind) {
    case 0: { const GNU_gama::local::Vec& x = IS->solve(); for (int i = 1; i <= x.dim(); i++) v.push_back(x(i)); } break;
    case 1: { const GNU_gama::local::Vec& r = IS->residuals(); for (int i = 1; i <= r.dim(); i++) v.push_back(r(i)); } break;
    case 2: v.push_back(IS->trans_VWV()); break;
    case 3: v.push_back(sx::rat(IS->degrees_of_freedom())); break;
    case 4: v.push_back(IS->m_0()); break;
    case 5: v.push_back(IS->qxx(1, IS->unknowns_count())); break;
    case 6: v.push_back(IS->qbb(2, 2)); break;
    case 7: v.push_back(IS->stdev_obs(1)); v.push_back(IS->wcoef_res(IS->observations_count())); break;
    case 8: { GNU_gama::local::Mat A; GNU_gama::local::Vec bb, w; IS->project_equations(A, bb, w);
              for (int i = 1; i <= A.rows(); i++) { v.push_back(bb(i)); v.push_back(w(i)); for (int j = 1; j <= A.cols(); j++) v.push_back(A(i, j)); } } break;
    case 9: v.push_back(sx::rat(IS->null_space())); break;
    case 10: v.push_back(IS->unknown_stdev(1)); v.push_back(IS->obs_control(1)); break;
    case 11: v.push_back(sx::rat(IS->lindep(1) ? 1 : 0)); v.push_back(sx::rat(IS->lindep(IS->unknowns_count()) ? 1 : 0)); break;
    case 12: for (auto it = IS->PD.begin(); it != IS->PD.end(); ++it) { const LocalPoint& p = it->second; if (p.test_xy()) { v.push_back(p.x()); v.push_back(p.y()); } if (p.test_z()) v.push_back(p.z()); } break;      // approximate coordinates
    case 13: { const GNU_gama::local::Vec& x = IS->solve(); for (auto it = IS->PD.begin(); it != IS->PD.end(); ++it) { const LocalPoint& p = it->second;        // adjusted coordinates = approximate + correction
                 if (p.test_xy()) { v.push_back(p.x() + (p.free_xy() && p.index_x() ? x(p.index_x()) / sx::rat(1000) : sx::rat(0))); v.push_back(p.y() + (p.free_xy() && p.index_y() ? x(p.index_y()) / sx::rat(1000) : sx::rat(0))); }
                 if (p.test_z()) v.push_back(p.z() + (p.free_z() && p.index_z() ? x(p.index_z()) / sx::rat(1000) : sx::rat(0))); } } break;
    case 25: IS->refine_approx_coordinates(); break;
    case 20: IS->update_points(); break; case 21: IS->update_observations(); break; case 22: IS->update_residuals(); break; case 23: IS->update_adjustment(); break;
    case 24: IS->set_algorithm(ALGS[o.a]); break;
  }
  return v;
}
static void case_c04_net(const Spec& spec, int alg0, int first, int maxlen, bool warm) {
  std::vector<NOp> ops{{"solve", 0}, {"residuals", 1}, {"trans_VWV", 2}, {"degrees_of_freedom", 3}, {"m_0", 4}, {"qxx(1,n)", 5}, {"qbb(2,2)", 6}, {"stdev_obs/wcoef_res", 7}, {"project_equations(A,b,w)", 8}, {"null_space", 9}, {"unknown_stdev/obs_control", 10}, {"lindep", 11}, {"approximate coordinates", 12}, {"adjusted coordinates", 13}, {"refine_approx_coordinates", 25},
                       {"update_points", 20}, {"update_observations", 21}, {"update_residuals", 22}, {"update_adjustment", 23}, {"set_algorithm(envelope)", 24, 0}, {"set_algorithm(cholesky)", 24, 1}, {"set_algorithm(gso)", 24, 2}};
  // the symbolic errors are declared once; every network built below shares them
  std::vector<Real> vals; { size_t k = 0; for (auto& c : spec.cl) for (auto& o : c.obs) { vals.push_back(sym_value(o.val, (int)k, Q(1, 10))); k++; } }
  auto fresh_net = [&](Built& b, int alg) -> bool {
    b.spec = spec; if (!b.net.parse(gkf(spec))) return false; b.obs = b.net.all_obs(); b.val = vals; b.active.assign(b.obs.size(), true);
    for (size_t k = 0; k < b.obs.size(); k++) b.obs[k]->set_value(vals[k]); b.net.prepare(ALGS[alg], false); return true; };
  std::map<std::string, std::vector<Real>> memo;
  auto fresh_answer = [&](int alg, const NOp& o) -> const std::vector<Real>& { std::string key = std::to_string(alg) + "|" + o.name; auto it = memo.find(key); if (it != memo.end()) return it->second;
    Built f; fresh_net(f, alg); return memo[key] = net_ask(f, o); };
  long nseq = 0;
  std::function<void(std::vector<int>&)> rec = [&](std::vector<int>& seq) {
    const NOp& last = ops[seq.back()];
    if (last.kind < 20) {
      Built b; if (!fresh_net(b, alg0)) { sx::fail("generated input rejected", ""); return; }
      int alg = alg0; std::string desc; std::vector<Real> got; bool refined = false;
      if (warm) { b.net.IS->trans_VWV(); b.net.IS->qxx(1, 1); desc = "(adjusted network) "; }      // the history starts on a network that has been adjusted and queried
      for (size_t k = 0; k < seq.size(); k++) { const NOp& op = ops[seq[k]]; desc += (k ? "; " : "") + op.name; if (op.kind == 24) alg = op.a; if (op.kind == 25) refined = true; std::vector<Real> r = net_ask(b, op); if (k + 1 == seq.size()) got = r; }
      // refine_approx_coordinates() moves the approximate coordinates to the adjusted ones; for these linear networks everything else
      // stays (the corrections become zero; the equations handed out get other right-hand sides and are not compared afterwards)
      nseq++;
      if (!(refined && last.kind == 8)) {
        std::vector<Real> zero; const std::vector<Real>* wantp;
        if (refined && last.kind == 12) { NOp adj{"adjusted coordinates", 13}; wantp = &fresh_answer(alg, adj); }
        else if (refined && last.kind == 0) { zero.assign(got.size(), sx::rat(0)); wantp = &zero; }
        else wantp = &fresh_answer(alg, last);
        const std::vector<Real>& want = *wantp;
        sx::check_true(got.size() == want.size(), "LocalNetwork history {" + desc + "} size of the answer", "");
        if (got.size() == want.size()) for (size_t i = 0; i < got.size(); i++) sx::check_eq(got[i], want[i], "LocalNetwork history {" + desc + "} component " + std::to_string(i + 1));
      }
    }
    if ((int)seq.size() < maxlen) for (int t = 0; t < (int)ops.size(); t++) { seq.push_back(t); rec(seq); seq.pop_back(); }
  };
  std::vector<int> seq{first}; rec(seq);
  sx::note("sequences", std::to_string(nseq)); sx::reached("net-c04");
}

// C12: the adjustment XML is read back by gama's own result reader without loss
static void case_c12(const Spec& spec0, int alg, int covband) {
  // a priori reference deviation and observation errors below 0.01 mm: the writer compares every standardised residual
  // with the critical value (an uninterpreted Normal(...) here, constrained to its true neighbourhood [1.9, 2.0]); with
  // larger errors each observation would fork, with the a posteriori deviation each comparison is a 15 s NRA query
  Spec spec = spec0; spec.sigma_act = "apriori";
  Built a; if (!build(a, spec, ALGS[alg], Q(1, 100000))) return;
  { Real crit = GNU_gama::Normal((sx::rat(1) - a.net.IS->conf_pr()) / sx::rat(2)); sx::assume_range(crit, mpq_class(19, 10), mpq_class(2)); }
  // frame "en": gama works on the mirrored y internally and writes the values back in the frame of the input
  bool en = spec.axes == "en"; Real ys = sx::rat(en ? -1 : 1);
  if (!en) { make_oracle(a); if (!a.orc.resolves) return; }
  LocalNetwork* IS = a.net.IS.get(); Oracle& o = a.orc;
  IS->set_adj_covband(covband);
  Res r = run_flow(a, true);
  std::string tag = std::string(ALGS[alg]) + " xml cov-band " + std::to_string(covband);
  sx::check_true(r.adjusted, tag + " adjusted", r.why); if (!r.adjusted) return;
  // description with markup characters, quotes and non-ASCII text (strings are native: enumerated, not symbolic)
  static const char* descr[] = {"plain text", "a<b>&c &amp; d", "it's", "say \"hello\"", "pr\xc5\xaf""m\xc4\x9br <\xc3\xa9>"};
  std::string wanted_description = descr[(covband + 1 + alg) % 5];
  IS->description = wanted_description;
  std::ostringstream xml; GNU_gama::LocalNetworkXML writer(IS); writer.write(xml);
  GNU_gama::LocalNetworkAdjustmentResults res;
  try { std::istringstream in(xml.str()); res.read_xml(in); }
  catch (const GNU_gama::Exception::parser& e) { sx::fail(tag + " the written XML is rejected by the result reader", std::string(e.what()) + " line " + std::to_string(e.line)); return; }
  catch (...) { sx::fail(tag + " the written XML is rejected by the result reader", "exception"); return; }
  sx::check_true(res.description == wanted_description, tag + " description read back without loss", "written: " + wanted_description + " | read: " + res.description);
  sx::check_true(res.project_equations.equations == r.nobs && res.project_equations.unknowns == r.nunk && res.project_equations.degrees_of_freedom == r.dof && res.project_equations.defect == r.defect, tag + " counts read back", "");
  same_printed(res.project_equations.sum_of_squares, r.vpv, tag + " sum of squares read back");
  same_printed(res.standard_deviation.apriori, IS->apriori_m_0(), tag + " a priori m0 read back");
  same_printed(res.standard_deviation.aposteriori, IS->m_0_aposteriori_value(), tag + " a posteriori m0 read back");
  sx::check_true(res.standard_deviation.using_aposteriori == IS->m_0_aposteriori(), tag + " sigma-act read back", "");
  // adjusted points
  std::map<std::string, Real> got;
  for (auto& p : res.adjusted_points) { if (p.hxy) { got[p.id + ".X"] = p.x; got[p.id + ".Y"] = p.y; } if (p.hz) got[p.id + ".Z"] = p.z;
    const Pt* sp = spec.pt(p.id); bool con_xy = false, con_z = false; if (sp) for (char ch : sp->adj) { if (ch == 'X' || ch == 'Y') con_xy = true; if (ch == 'Z') con_z = true; }
    if (p.hxy) sx::check_true(p.cxy == con_xy, tag + " constrained flag xy of " + p.id, ""); if (p.hz) sx::check_true(p.cz == con_z, tag + " constrained flag z of " + p.id, ""); }
  sx::check_true(got.size() == r.adj.size(), tag + " same adjusted coordinates listed", std::to_string(got.size()));
  for (auto& kv : r.adj) { auto it = got.find(kv.first); sx::check_true(it != got.end(), tag + " adjusted " + kv.first + " present", ""); if (it != got.end()) same_printed(it->second, (kv.first.back() == 'Y' ? ys : sx::rat(1)) * kv.second, tag + " adjusted " + kv.first + " read back", (sx::f64)1e-8); }
  // fixed points
  for (auto& p : res.fixed_points) { const Pt* sp = spec.pt(p.id); sx::check_true(sp != nullptr, tag + " fixed point known", p.id); if (!sp) continue; if (p.hz) same_printed(p.z, sx::constant(sp->z), tag + " fixed z of " + p.id); if (p.hxy) { same_printed(p.x, sx::constant(sp->x), tag + " fixed x of " + p.id); same_printed(p.y, sx::constant(sp->y), tag + " fixed y of " + p.id); } }
  // observations
  sx::check_true((int)res.obslist.size() == r.nobs, tag + " observation list length", "");
  if ((int)res.obslist.size() == r.nobs) for (int i = 1; i <= r.nobs; i++) { auto& ob = res.obslist[i - 1]; Observation* real = IS->ptr_obs(i);
    Real so = (otype(real) == YDIFF || otype(real) == CY) ? ys : sx::rat(1);
    same_printed(ob.obs, so * real->value(), tag + " observed value " + std::to_string(i), (sx::f64)1e-8);        // written with 16 decimals
    same_printed(ob.adj, so * (real->value() + IS->residuals()(i) / sx::rat(1000)), tag + " adjusted observation " + std::to_string(i), (sx::f64)1e-8);
    same_printed(ob.stdev, IS->stdev_obs(i), tag + " stdev of adjusted observation " + std::to_string(i));
    same_printed(ob.qrr, IS->wcoef_res(i), tag + " qrr " + std::to_string(i), (sx::f64)6e-4); }   // written with 3 decimals
  // covariance band = m0^2 Q of the oracle, exactly the band asked for
  int dim = res.cov.dim(), band = res.cov.bandWidth(); int want = (covband == -1 || covband > dim - 1) ? dim - 1 : covband;
  sx::check_true(dim == r.nunk && band == want && (int)res.original_index.size() == dim + 1, tag + " covariance band dimensions", std::to_string(dim) + "/" + std::to_string(band) + " unknowns " + std::to_string(r.nunk) + " wanted band " + std::to_string(want) + " index list " + std::to_string(res.original_index.size()));
  if (dim == r.nunk && band == want && (int)res.original_index.size() == dim + 1) {
    Real m0 = IS->m_0(); const GNU_gama::CovMat<>& C = res.cov;
    for (int i = 1; i <= dim; i++) for (int j = i; j <= std::min(dim, i + band); j++) {
      int ui = res.original_index[i], uj = res.original_index[j];     // 1-based list
      int ci = o.col(IS->unknown_pointid(ui).str(), IS->unknown_type(ui)), cj = o.col(IS->unknown_pointid(uj).str(), IS->unknown_type(uj));
      if (en) { same_printed(C(i, j), m0 * m0 * IS->qxx(ui, uj), tag + " cov-mat element " + std::to_string(i) + "," + std::to_string(j) + " = m0^2 q_xx"); continue; }
      if (ci >= 0 && cj >= 0) same_printed(C(i, j), m0 * m0 * sx::constant(o.Qx(ci, cj)), tag + " cov-mat element " + std::to_string(i) + "," + std::to_string(j) + " = m0^2 q_xx"); }
  }
  sx::reached("net-c12");
}

// C13: the exported input describes the same survey, adjusts to the same results and is a fixed point of export
static void case_c13(const Spec& spec, int alg, int rounds) {
  Built a; if (!build(a, spec, ALGS[alg], Q(1, 10))) return;
  Res ra = run_flow(a, true);
  std::string tag = std::string(ALGS[alg]) + " export";
  sx::check_true(ra.adjusted, tag + " original adjusted", ra.why); if (!ra.adjusted) return;
  std::string xml_prev = a.net.IS->export_xml();
  Res rprev = ra; std::vector<Observation*> obs_prev = a.obs;
  std::vector<std::unique_ptr<Built>> keep;
  for (int round = 1; round <= rounds; round++) {
    std::string t = tag + " round " + std::to_string(round);
    keep.emplace_back(new Built); Built& b = *keep.back();
    if (!b.net.parse(xml_prev)) { sx::fail(t + " exported file is rejected by the parser", b.net.parse_error + " line " + std::to_string(b.net.parse_line)); return; }
    b.obs = b.net.all_obs(); b.active.assign(b.obs.size(), true);
    b.net.prepare(ALGS[alg], false);         // both networks are compared in gama's internal frame (y mirrored when the input frame is inconsistent)
    sx::check_true(b.obs.size() == obs_prev.size(), t + " same number of observations", std::to_string(b.obs.size())); if (b.obs.size() != obs_prev.size()) return;
    for (size_t k = 0; k < b.obs.size(); k++) {
      sx::check_true(otype(b.obs[k]) == otype(obs_prev[k]) && b.obs[k]->from().str() == obs_prev[k]->from().str() && b.obs[k]->to().str() == obs_prev[k]->to().str(), t + " observation " + std::to_string(k + 1) + " has the same type and end points", "");
      sx::check_eq(b.obs[k]->value(), obs_prev[k]->value(), t + " value of observation " + std::to_string(k + 1));
      sx::check_eq(b.obs[k]->stdDev(), obs_prev[k]->stdDev(), t + " standard deviation of observation " + std::to_string(k + 1));
    }
    // points and their status
    LocalNetwork* A = (round == 1) ? a.net.IS.get() : keep[round - 2]->net.IS.get(); LocalNetwork* B = b.net.IS.get();
    // the parser takes observed coordinates (<coordinates> cluster) as the approximate ones of that point, by design:
    // for such points the approximate values are compared from the second round on only
    std::set<std::string> observed_pts; for (Observation* o : b.obs) { OType ot = otype(o); if (ot == CX || ot == CY || ot == CZ) observed_pts.insert(o->from().str()); }
    for (auto it = A->PD.begin(); it != A->PD.end(); ++it) { const LocalPoint& p = it->second; if (!p.active()) continue; const LocalPoint& q = B->PD[it->first];
      if (round == 1 && observed_pts.count(it->first.str())) { sx::check_true(p.fixed_xy() == q.fixed_xy() && p.free_xy() == q.free_xy() && p.free_z() == q.free_z() && p.fixed_z() == q.fixed_z(), t + " status of point " + it->first.str(), ""); continue; }
      sx::check_true(p.fixed_xy() == q.fixed_xy() && p.free_xy() == q.free_xy() && p.constrained_xy() == q.constrained_xy() && p.fixed_z() == q.fixed_z() && p.free_z() == q.free_z() && p.constrained_z() == q.constrained_z(), t + " status of point " + it->first.str(), "");
      if (p.test_xy()) { sx::check_true(q.test_xy(), t + " xy present", ""); if (q.test_xy()) { sx::check_eq(p.x(), q.x(), t + " x of " + it->first.str()); sx::check_eq(p.y(), q.y(), t + " y of " + it->first.str()); } }
      if (p.test_z()) { sx::check_true(q.test_z(), t + " z present", ""); if (q.test_z()) sx::check_eq(p.z(), q.z(), t + " z of " + it->first.str()); } }
    sx::check_eq(A->apriori_m_0(), B->apriori_m_0(), t + " sigma-apr"); sx::check_eq(A->tol_abs(), B->tol_abs(), t + " tol-abs"); sx::check_true(A->m_0_apriori() == B->m_0_apriori(), t + " sigma-act", "");
    Res rb = run_flow(b, true);
    same_results(rb, rprev, t + " re-adjustment", true, true);
    sx::check_true(B->linearization_iterations() == 0, t + " no further linearisation iterations", "");
    std::string xml2 = B->export_xml();
    if (round > 1 || observed_pts.empty()) sx::check_true(xml2 == xml_prev, t + " exporting again yields the same file", "");
    xml_prev = xml2; rprev = rb; obs_prev = b.obs;
  }
  sx::reached("net-c13");
}

// C20: ill-posed datum / structure: same diagnosis for every algorithm
static void case_c20(const Spec& spec) {
  std::vector<Res> rs;
  for (int alg = 0; alg < 3; alg++) { Built b; if (!build(b, spec, ALGS[alg], Q(1, 10))) return; rs.push_back(run_flow(b, true)); }
  for (int alg = 1; alg < 3; alg++) same_results(rs[alg], rs[0], std::string(ALGS[alg]) + " vs envelope (ill-posed)", true, true);
  for (int alg = 0; alg < 3; alg++) { std::string l; for (auto& x : rs[alg].removed) l += x + " "; sx::note(std::string("removed by ") + ALGS[alg], l + (rs[alg].adjusted ? "| adjusted" : "| " + rs[alg].why)); }
  sx::note("outcome", rs[0].adjusted ? "adjusted after removing " + std::to_string(rs[0].removed.size()) + " points" : rs[0].why);
  sx::reached("net-c20");
}

// ---------------------------------------------------------------------------------------------------
static std::vector<Spec> linear_family(const sx::Options& opt) {
  bool th = opt.tier == "thorough";
  std::vector<Spec> v;
  qla::Rng rng(2024 + opt.seed);
  std::vector<std::pair<int,int>> loop5{{1,2},{2,3},{3,4},{4,5},{5,1},{2,4},{1,3}};
  std::vector<std::pair<int,int>> chain4{{1,2},{2,3},{3,4},{4,1},{1,3}};
  for (int cs = 0; cs < (th ? 4 : 3); cs++) {
    v.push_back(levelling("lev5-fixed1/cov" + std::to_string(cs), 5, loop5, "faaaa", rng, cs));
    v.push_back(levelling("lev5-free-c2/cov" + std::to_string(cs), 5, loop5, "ccaaa", rng, cs, 2));
    v.push_back(levelling("lev4-free-all/cov" + std::to_string(cs), 4, chain4, "cccc", rng, cs));
  }
  v.push_back(levelling("lev5-fixed2", 5, loop5, "fafaa", rng, 0, 3));
  for (int cs = 0; cs < (th ? 3 : 2); cs++) {
    v.push_back(vectors("vec4-fixed1/cov" + std::to_string(cs), 4, {{1,2},{2,3},{3,4},{4,1},{1,3}}, "faaa", rng, cs));
    v.push_back(vectors("vec4-free/cov" + std::to_string(cs), 4, {{1,2},{2,3},{3,4},{4,1},{2,4}}, "caca", rng, cs));
  }
  { Spec s = vectors("vec3-coords", 3, {{1,2},{2,3},{3,1}}, "aaa", rng, 1); add_coordinates(s, {"V1", "V2"}, true, true, rng, true); v.push_back(s); }
  { Spec s = levelling("lev4-coordz", 4, chain4, "aaaa", rng, 2); add_coordinates(s, {"H2"}, false, true, rng, false); v.push_back(s); }
  // observed coordinates with a different set of components per point (xyz, xy only, z only; the z-only one directly after the xy-only one)
  { Spec s = vectors("vec3-coords-mixed", 3, {{1,2},{2,3},{3,1}}, "aaa", rng, 0); add_coordinates_mixed(s, {{"V1", 3}, {"V2", 1}, {"V3", 2}}, rng, true); v.push_back(s); }
  { Spec s = vectors("vec3-coords-mixed2", 3, {{1,2},{2,3}}, "aaa", rng, 1); add_coordinates_mixed(s, {{"V3", 2}, {"V1", 1}, {"V2", 2}, {"V3", 1}}, rng, false); v.push_back(s); }
  return v;
}

static void gen_cases(const sx::Options& opt, std::vector<sx::Case>& cases) {
  g_prop = opt.prop;
  GNU_gama::local::set_gama_language(GNU_gama::local::en);
  bool th = opt.tier == "thorough";
  std::vector<Spec> fam = linear_family(opt);
  auto add = [&](const std::string& name, const std::string& family, std::function<void()> f) { cases.push_back({name, family, f}); };
  if (on("C01") || on("C03")) for (auto& s : fam) for (int alg = 0; alg < 3; alg++) { auto sp = std::make_shared<Spec>(s);
      add("net/" + s.name + "/" + ALGS[alg], "LocalNetwork vs exact oracle", [sp, alg] { sx::note("network", sp->name); case_c01(*sp, alg); }); }
  if (on("C02")) for (auto& s : fam) { auto sp = std::make_shared<Spec>(s); add("net-c02/" + s.name, "LocalNetwork: algorithms agree", [sp] { case_c02(*sp); }); }
  if (on("C06")) {
    // approximate coordinates omitted: the result must not depend on how the sections are listed or directed
    qla::Rng rng(606 + opt.seed);
    std::vector<Spec> lines;
    lines.push_back(levelling("lev4-line-towards-benchmark", 4, {{4,3},{3,2},{2,1}}, "faaa", rng, 0));
    lines.push_back(levelling("lev5-line-mixed-directions", 5, {{5,4},{3,4},{3,2},{1,2}}, "faaaa", rng, 0));
    lines.push_back(levelling("lev5-line-from-far-end", 5, {{4,5},{3,4},{2,3},{1,2}}, "aaaaf", rng, 0));
    lines.push_back(levelling("lev6-branches", 6, {{6,5},{5,2},{4,3},{3,2},{2,1}}, "faaaaa", rng, 1));
    lines.push_back(vectors("vec4-line-towards-fixed", 4, {{4,3},{3,2},{2,1}}, "faaa", rng, 0));
    for (auto& s0 : fam) { if (s0.name.find("fixed") == std::string::npos) continue; std::map<int,int> om; Spec a = transform(s0, 4, om); a.name = s0.name + "-ends-swapped"; lines.push_back(a); Spec b2 = transform(a, 2, om); b2.name = s0.name + "-ends-swapped-reversed"; lines.push_back(b2); }
    int k = 0;
    for (auto& s : lines) { int alg = (k++) % 3; auto sp = std::make_shared<Spec>(s);
      add("net-c06/" + s.name + "/" + ALGS[alg] + "/mode2", "consistent observations reproduce the network (listing order)", [sp, alg] { case_c06(*sp, alg, 2); }); }
  }
  if (on("C06")) for (auto& s : fam) for (int alg = 0; alg < 3; alg++) for (int mode = 0; mode < 3; mode++) {
      if (!th && alg != mode % 3 && mode != 1) continue;
      auto sp = std::make_shared<Spec>(s); add("net-c06/" + s.name + "/" + ALGS[alg] + "/mode" + std::to_string(mode), "consistent observations reproduce the network", [sp, alg, mode] { case_c06(*sp, alg, mode); }); }
  if (on("C07")) for (auto& s : fam) for (int variant = 1; variant <= 5; variant++) for (int alg = 0; alg < 3; alg++) {
      if (!th && alg != variant % 3) continue;
      if (variant == 5) { bool has_xy = false; for (auto& p : s.pts) if (p.has_xy) has_xy = true; if (!has_xy) continue; }
      auto sp = std::make_shared<Spec>(s); add("net-c07/" + s.name + "/" + ALGS[alg] + "/variant" + std::to_string(variant), "equivalent descriptions", [sp, alg, variant] { case_c07(*sp, alg, variant); }); }
  if (on("C08")) {
    qla::Rng rng(808 + opt.seed);
    std::vector<std::pair<int,int>> loop5{{1,2},{2,3},{3,4},{4,5},{5,1},{2,4},{1,3}};
    for (int cs = 0; cs < 3; cs++) for (int alg = 0; alg < 3; alg++) {
      { auto sp = std::make_shared<Spec>(levelling("lev5-free/cov" + std::to_string(cs), 5, loop5, "ccccc", rng, cs));
        add("net-c08/" + sp->name + "/" + ALGS[alg], "datum choice", [sp, alg] { case_c08(*sp, alg, {"ccccc", "caaaa", "aacac", "acccc", "aaaac"}); }); }
      if (cs < 2) { auto sp = std::make_shared<Spec>(vectors("vec4-free/cov" + std::to_string(cs), 4, {{1,2},{2,3},{3,4},{4,1},{2,4}}, "cccc", rng, cs));
        add("net-c08/" + sp->name + "/" + ALGS[alg], "datum choice", [sp, alg] { case_c08(*sp, alg, {"cccc", "caaa", "acca", "aaac", "zpaa", "apza"}); }); }
    }
  }
  if (on("C10")) {
    qla::Rng rng(1010 + opt.seed);
    std::vector<std::pair<int,int>> loop5{{1,2},{2,3},{3,4},{4,5},{5,1},{2,4},{1,3}};
    for (int alg = 0; alg < 3; alg++) {
      { auto sp = std::make_shared<Spec>(levelling("lev5-diag", 5, loop5, "faaaa", rng, 0, 2)); add("net-c10/diag/" + std::string(ALGS[alg]), "diagonal cov-mat = stdev", [sp, alg] { case_c10_diag(*sp, alg); }); }
      for (int band = 1; band <= 3; band++) {
        auto sp = std::make_shared<Spec>(levelling("lev5-band" + std::to_string(band), 5, loop5, "faaaa", rng, band + 1, 1));
        int n = (int)sp->cl[0].obs.size();
        for (unsigned mask = 1; mask < (1u << n); mask++) {
          int bits = __builtin_popcount(mask); if (bits > 3) continue; if (!th && (mask * 2654435761u >> 28) % 4 != (unsigned)alg) continue;
          add("net-c10/passive/band" + std::to_string(band) + "/" + ALGS[alg] + "/mask" + std::to_string(mask), "passive observations use the covariance sub-matrix", [sp, alg, mask] { case_c10_passive(*sp, alg, 0, mask); });
        }
      }
    }
    for (int kind = 0; kind < 4; kind++) add("net-c10/reject/kind" + std::to_string(kind), "malformed covariance matrices", [kind] { case_c10_reject(kind); });
  }
  if (on("C05")) { const char* AX[] = {"ne", "sw", "es", "wn", "en", "nw", "se", "ws"}; const char* AN[] = {"left-handed", "right-handed"}; int k = 0;
    for (auto ax : AX) for (auto an : AN) for (int variant = 0; variant < (th ? 3 : 1); variant++) { std::string a = ax, g = an; int alg = (k++) % 3;
      add("net-c05/" + a + "/" + g + "/v" + std::to_string(variant) + "/" + ALGS[alg], "frames", [a, g, variant, alg] { case_c05_net(a, g, variant, alg); }); } }
  if (on("C04")) { int k = 0; for (auto& s : fam) { if (s.name != "lev5-fixed1/cov2" && s.name != "lev5-free-c2/cov1" && s.name != "vec4-fixed1/cov1" && s.name != "vec4-free/cov0") continue; int alg0 = (k++) % 3;      // (vec4-free: both ends of the first vector are new points, so the index of y does not follow the index of x)
      for (int first = 0; first < 22; first++) { auto sp = std::make_shared<Spec>(s); int ml = (th || first == 14) ? 3 : 2;      // (histories that start with refine_approx_coordinates are taken one call longer)
        add("net-c04/" + s.name + "/" + ALGS[alg0] + "/first" + std::to_string(first), "LocalNetwork histories", [sp, alg0, first, ml] { case_c04_net(*sp, alg0, first, ml, false); });
        add("net-c04/" + s.name + "/" + ALGS[alg0] + "/adjusted-first" + std::to_string(first), "LocalNetwork histories", [sp, alg0, first, ml] { case_c04_net(*sp, alg0, first, ml, true); }); } } }
  std::vector<Spec> fam_en;      // the families with horizontal coordinates, written in the frame "en" (inconsistent with the default angle sense)
  for (auto& s : fam) { bool has_xy = false; for (auto& p : s.pts) if (p.has_xy) has_xy = true; if (!has_xy) continue; std::map<int,int> om; Spec t = transform(s, 5, om); t.name = s.name + "@en"; fam_en.push_back(t); }
  std::vector<Spec> fam12 = fam; for (auto& s : fam_en) fam12.push_back(s);
  if (on("C12")) { int si = -1; static const int bands[] = {-1, 0, 1, 3, 2}; for (auto& s : fam12) { si++; for (int bi = 0; bi < 5; bi++) { if (!th && bi != si % 5 && bi != (si + 2) % 5) continue; int cb = bands[bi]; int alg = (si + bi) % 3; auto sp = std::make_shared<Spec>(s);
      add("net-c12/" + s.name + "/" + ALGS[alg] + "/band" + std::to_string(cb), "XML result read back", [sp, alg, cb] { case_c12(*sp, alg, cb); }); } } }
  if (on("C13")) { int k = 0; for (auto& s : fam12) { int alg = (k++) % 3; auto sp = std::make_shared<Spec>(s); int rounds = th ? 3 : 2;
      add("net-c13/" + s.name + "/" + ALGS[alg], "export is a faithful fixed point", [sp, alg, rounds] { case_c13(*sp, alg, rounds); }); } }
  if (on("C14")) for (auto& s : fam) { if (s.name.find("fixed") == std::string::npos) continue; size_t nobs = 0; for (auto& c : s.cl) nobs += c.obs.size();
      for (int alg = 0; alg < 3; alg++) for (size_t t = 0; t < nobs; t += (th ? 1 : 3)) { auto sp = std::make_shared<Spec>(s); int tt = (int)t;
        add("net-c14/" + s.name + "/" + ALGS[alg] + "/obs" + std::to_string(t), "tol-abs threshold and deletion equivalence", [sp, alg, tt] { case_c14(*sp, alg, tt); }); } }
  if (on("C09")) {
    qla::Rng rng(909 + opt.seed);
    std::vector<Spec> st = fam;
    st.push_back(levelling("lev3-dof0", 3, {{1,2},{2,3}}, "faa", rng, 0));            // dof = 0
    st.push_back(levelling("lev3-dof1", 3, {{1,2},{2,3},{3,1}}, "faa", rng, 0));      // dof = 1
    st.push_back(levelling("lev4-dof2", 4, {{1,2},{2,3},{3,4},{4,1},{1,3}}, "faaa", rng, 1));
    // observed coordinates and one baseline with diagonal covariances: x and y decoupled, so the xy cofactor is exactly zero
    // also in floating point and the ellipse is axis-parallel (major axis along x or along y)
    for (int k = 0; k < 3; k++) { Spec s = vectors("gnss-like" + std::to_string(k), 2, {{1,2}}, "aa", rng, 0); add_coordinates(s, {"V1", "V2"}, true, true, rng, false); add_coordinates(s, {"V2", "V1"}, true, false, rng, false); st.push_back(s); }
    int k = 0;
    for (auto& s : st) for (int alg = 0; alg < 3; alg++) for (int act = 0; act < 2; act++) {
      if (!th && (k++ % 2)) continue;
      auto sp = std::make_shared<Spec>(s); std::string sa = act ? "apriori" : "aposteriori"; Q conf = (alg == 1) ? Q(9, 10) : Q(95, 100); Q s2 = (alg == 2) ? Q(0) : Q(5, 2);
      add("net-c09/" + s.name + "/" + ALGS[alg] + "/" + sa, "statistics", [sp, alg, sa, conf, s2] { case_c09(*sp, alg, sa, conf, s2); }); }
  }
  if (on("C20")) {
    qla::Rng rng(2020 + opt.seed);
    std::vector<std::pair<int,int>> loop5{{1,2},{2,3},{3,4},{4,5},{5,1},{2,4},{1,3}};
    std::vector<std::pair<int,int>> two{{1,2},{2,3},{3,1},{4,5},{5,6},{6,4},{4,5}};
    std::vector<Spec> ill;
    ill.push_back(levelling("lev5-no-datum", 5, loop5, "aaaaa", rng, 0));
    ill.push_back(levelling("lev6-two-parts-one-datum", 6, two, "caaaaa", rng, 0));
    ill.push_back(levelling("lev6-two-parts-fixed-one", 6, two, "faaaaa", rng, 1));
    ill.push_back(levelling("lev6-two-parts-ok", 6, two, "caacaa", rng, 0));
    ill.push_back(vectors("vec4-no-datum", 4, {{1,2},{2,3},{3,4},{4,1}}, "aaaa", rng, 0));
    { Spec s = levelling("lev5-dangling", 5, {{1,2},{2,3},{3,1},{4,5}}, "faaaa", rng, 0); ill.push_back(s); }
    { Spec s = levelling("lev4-all-fixed", 4, {{1,2},{2,3},{3,4}}, "ffff", rng, 0); ill.push_back(s); }
    for (auto& s : ill) { auto sp = std::make_shared<Spec>(s); add("net-c20/" + s.name, "ill-posed networks", [sp] { case_c20(*sp); }); }
  }
}

int main(int argc, char** argv) { return sx::run_main(argc, argv, "net", gen_cases); }
