// Harness "adj": the general adjustment class GNU_gama::Adj and the four solver templates behind
// AdjBase, executed on concrete rational design-matrix skeletons with a fully symbolic right-hand
// side.  Serves C01 (optimality conditions), C02 (agreement of algorithms), C03 (cofactors),
// C10 (a: covariance handling against the whitened problem) and C16 (b: envelope vs dense LDL').
#include "adjcommon.h"
#ifndef SX_REPLAY
#include "svd_contract.h"
#endif
#include <iostream>

using namespace H;
typedef GNU_gama::Exception::matvec Exc;

static std::string g_prop;

static bool on(const char* p) { return g_prop.empty() || g_prop == p; }

// rational orthogonal matrix from a skew-symmetric generator (Cayley transform)
static QMat cayley(int n, qla::Rng& rng) {
  QMat S(n, n);
  for (int i = 0; i < n; i++) for (int j = i + 1; j < n; j++) { Q v(rng.range(-2, 2), rng.range(1, 2)); S(i, j) = v; S(j, i) = -v; }
  QMat I = qla::eye(n), A(n, n), B(n, n);
  for (int i = 0; i < n; i++) for (int j = 0; j < n; j++) { A(i, j) = I(i, j) - S(i, j); B(i, j) = I(i, j) + S(i, j); }
  return qla::mul(A, qla::inverse(B));
}

// ------------------------------------------------------------------------------------------------
struct Solution {
  bool thrown = false; int exc_code = 0; std::string what;
  std::vector<Real> x, r; Real rtr; int defect = -1;
};

static void register_svd(const Problem& p) {
#ifndef SX_REPLAY
  sx::svd_clear();
  if (!p.svd_known) return;
  sx::SvdFactors f; f.m = p.m; f.n = p.n;
  QMat At = qla::mul(qla::mul(p.U, p.W), qla::trans(p.V));      // homogenised matrix L^-1 A
  for (int i = 0; i < p.m; i++) for (int j = 0; j < p.n; j++) { f.A.push_back(sx::constant(At(i, j))); f.U.push_back(sx::constant(p.U(i, j))); }
  for (int j = 0; j < p.n; j++) f.W.push_back(sx::constant(p.W(j, j)));
  for (int i = 0; i < p.n; i++) for (int j = 0; j < p.n; j++) f.V.push_back(sx::constant(p.V(i, j)));
  sx::svd_register(f);
#else
  (void)p;
#endif
}

static std::vector<Adj::algorithm> algorithms(const Problem& p) {
  std::vector<Adj::algorithm> a{Adj::envelope, Adj::cholesky, Adj::gso};
#ifdef SX_REPLAY
  a.push_back(Adj::svd);          // the double build runs the real Golub-Reinsch iteration on every matrix (native validation of the svd contract)
#else
  if (p.svd_known) a.push_back(Adj::svd);
#endif
  return a;
}

// one run of the real Adj class
static Solution run_adj(const Problem& p, const std::vector<Real>& b, Adj::algorithm alg, Adj& adj) {
  Solution s;
  adj.set(make_input(p, b));            // Adj owns the input object
  adj.set_algorithm(alg);
  try {
    const Vec<>& x = adj.x();
    for (int j = 1; j <= p.n; j++) s.x.push_back(x(j));
    const Vec<>& r = adj.r();
    for (int i = 1; i <= p.m; i++) s.r.push_back(r(i));
    s.rtr = adj.rtr();
    s.defect = adj.defect();
  } catch (const Exc& e) {
    s.thrown = true; s.exc_code = e.error(); s.what = e.what();
  } catch (const GNU_gama::Exception::adjustment& e) {
    s.thrown = true; s.exc_code = -1; s.what = e.str;
  }
  return s;
}

static void check_c01(const Problem& p, const std::vector<Real>& b, const Solution& s, const std::string& tag) {
  // v = A x - b
  for (int i = 0; i < p.m; i++) sx::check_eq(s.r[i], dotQ(p.A, i, s.x) - b[i], tag + " residual=Ax-b row " + std::to_string(i + 1));
  // normal equations A' P v = 0
  std::vector<Real> Pv(p.m);
  for (int i = 0; i < p.m; i++) Pv[i] = dotQ(p.P, i, s.r);
  QMat At = qla::trans(p.A);
  for (int j = 0; j < p.n; j++) sx::check_zero(dotQ(At, j, Pv), tag + " normal-equation " + std::to_string(j + 1));
  // reported sum of squares
  Real vpv = sx::rat(0); for (int i = 0; i < p.m; i++) vpv = vpv + s.r[i] * Pv[i];
  sx::check_eq(s.rtr, vpv, tag + " sum-of-squares=v'Pv");
  // nullity
  sx::check_true(s.defect == p.defect, tag + " defect", "reported " + std::to_string(s.defect) + " true " + std::to_string(p.defect));
  // minimum norm over the subset: G_S' x_S = 0
  if (p.defect > 0) {
    for (int k = 0; k < p.defect; k++) {
      Real t = sx::rat(0);
      if (p.has_subset) { for (int idx : p.subset) t = t + sx::constant(p.G(idx - 1, k)) * s.x[idx - 1]; }
      else for (int j = 0; j < p.n; j++) t = t + sx::constant(p.G(j, k)) * s.x[j];
      sx::check_zero(t, tag + " min-norm orthogonality to null vector " + std::to_string(k + 1));
    }
  }
  sx::reached("C01");
}

static void check_c03(const Problem& p, Adj& adj, const std::string& tag) {
  int n = p.n, m = p.m;
  std::vector<std::vector<Real>> Qm(n, std::vector<Real>(n));
  // ask in an order that mixes rows and columns (exercises the envelope's on-demand columns)
  for (int j = n; j >= 1; j--) for (int i = 1; i <= n; i++) Qm[i - 1][j - 1] = adj.q_xx(i, j);
  for (int i = 0; i < n; i++) for (int j = i + 1; j < n; j++) sx::check_eq(Qm[i][j], Qm[j][i], tag + " q_xx symmetric " + std::to_string(i + 1) + "," + std::to_string(j + 1));
  // N Q N = N and Q N Q = Q
  auto NQ = [&](int i, int j) { Real s = sx::rat(0); for (int k = 0; k < n; k++) if (p.N(i, k) != 0) s = s + sx::constant(p.N(i, k)) * Qm[k][j]; return s; };
  std::vector<std::vector<Real>> NQm(n, std::vector<Real>(n));
  for (int i = 0; i < n; i++) for (int j = 0; j < n; j++) NQm[i][j] = NQ(i, j);
  for (int i = 0; i < n; i++) for (int j = 0; j < n; j++) {
    Real s = sx::rat(0); for (int k = 0; k < n; k++) if (p.N(k, j) != 0) s = s + NQm[i][k] * sx::constant(p.N(k, j));
    sx::check_eq(s, sx::constant(p.N(i, j)), tag + " NQN=N " + std::to_string(i + 1) + "," + std::to_string(j + 1));
    Real t = sx::rat(0); for (int k = 0; k < n; k++) t = t + Qm[i][k] * NQm[k][j];
    sx::check_eq(t, Qm[i][j], tag + " QNQ=Q " + std::to_string(i + 1) + "," + std::to_string(j + 1));
    if (p.defect == 0) sx::check_eq(NQm[i][j], sx::rat(i == j ? 1 : 0), tag + " NQ=I " + std::to_string(i + 1) + "," + std::to_string(j + 1));
  }
  // Q belongs to the regularisation: G' E_S Q = 0
  for (int k = 0; k < p.defect; k++) for (int j = 0; j < n; j++) {
    Real t = sx::rat(0);
    for (int i = 0; i < n; i++) {
      bool in = !p.has_subset || std::find(p.subset.begin(), p.subset.end(), i + 1) != p.subset.end();
      if (in && p.G(i, k) != 0) t = t + sx::constant(p.G(i, k)) * Qm[i][j];
    }
    sx::check_zero(t, tag + " q_xx orthogonal to datum " + std::to_string(k + 1) + " col " + std::to_string(j + 1));
  }
  // q_bb = A Q A'  (every pair, including those outside the envelope), generalised projector, redundancy
  std::vector<std::vector<Real>> Hm(m, std::vector<Real>(m));
  for (int i = 1; i <= m; i++) for (int j = m; j >= 1; j--) Hm[i - 1][j - 1] = adj.q_bb(i, j);
  for (int i = 0; i < m; i++) {
    std::vector<Real> aq(n);
    for (int k = 0; k < n; k++) aq[k] = dotQ(p.A, i, [&]{ std::vector<Real> col(n); for (int l = 0; l < n; l++) col[l] = Qm[l][k]; return col; }());
    for (int j = 0; j < m; j++) sx::check_eq(Hm[i][j], dotQ(p.A, j, aq), tag + " q_bb=AQA' " + std::to_string(i + 1) + "," + std::to_string(j + 1));
  }
  Real tr = sx::rat(0);
  for (int i = 0; i < m; i++) for (int k = 0; k < m; k++) if (p.P(i, k) != 0) tr = tr + sx::constant(p.P(i, k)) * Hm[k][i];
  sx::check_eq(tr, sx::rat(n - p.defect), tag + " trace(P q_bb)=n-defect (redundancy sum)");
  sx::reached("C03");
}

// ---- solver templates used directly on the homogenised system -----------------------------------
struct BaseRun {
  std::vector<Real> x, r; Real ss; int defect = -1; bool thrown = false; std::vector<int> lindep;
  std::vector<std::vector<Real>> qxx, qbb, qbx; bool have_qbx = false;
};

template <class Solver>
static void base_collect(Solver& s, const Problem& p, BaseRun& out, bool want_q) {
  try {
    const auto& x = s.unknowns(); for (int j = 1; j <= p.n; j++) out.x.push_back(x(j));
    const auto& r = s.residuals(); for (int i = 1; i <= p.m; i++) out.r.push_back(r(i));
    out.ss = s.sum_of_squares();
    out.defect = s.defect();
    for (int j = 1; j <= p.n; j++) if (s.lindep(j)) out.lindep.push_back(j);
    if (want_q) {
      out.qxx.assign(p.n, std::vector<Real>(p.n)); out.qbb.assign(p.m, std::vector<Real>(p.m));
      for (int i = 1; i <= p.n; i++) for (int j = 1; j <= p.n; j++) out.qxx[i - 1][j - 1] = s.q_xx(i, j);
      for (int i = 1; i <= p.m; i++) for (int j = 1; j <= p.m; j++) out.qbb[i - 1][j - 1] = s.q_bb(i, j);
    }
  } catch (const Exc& e) { out.thrown = true; }
}

static void homogenised(const Problem& p, const std::vector<Real>& b, QMat& At, std::vector<Real>& bt) {
  QMat Linv = qla::inverse(chol_full(p));
  At = qla::mul(Linv, p.A);
  bt.assign(p.m, sx::rat(0));
  for (int i = 0; i < p.m; i++) bt[i] = dotQ(Linv, i, b);
}

static void check_base(const Problem& p, const QMat& At, const std::vector<Real>& bt, const BaseRun& s, const std::string& tag, bool resid_original,
                       const std::vector<Real>& b) {
  if (s.thrown) {
    sx::check_true(p.defect > 0 && !p.subset_resolves, tag + " exception only for a non-resolving regularisation", p.describe());
    return;
  }
  if (p.defect > 0 && !p.subset_resolves) { sx::fail(tag + " non-resolving regularisation must not yield an adjustment", p.describe()); return; }
  QMat AtT = qla::trans(At);
  std::vector<Real> rt(p.m);
  for (int i = 0; i < p.m; i++) rt[i] = dotQ(At, i, s.x) - bt[i];
  for (int i = 0; i < p.m; i++) {
    if (resid_original) sx::check_eq(s.r[i], dotQ(p.A, i, s.x) - b[i], tag + " residual=Ax-b row " + std::to_string(i + 1));
    else sx::check_eq(s.r[i], rt[i], tag + " residual=Ax-b (homogenised) row " + std::to_string(i + 1));
  }
  for (int j = 0; j < p.n; j++) sx::check_zero(dotQ(AtT, j, rt), tag + " normal-equation " + std::to_string(j + 1));
  Real ss = sx::rat(0); for (int i = 0; i < p.m; i++) ss = ss + rt[i] * rt[i];
  sx::check_eq(s.ss, ss, tag + " sum-of-squares");
  sx::check_true(s.defect == p.defect, tag + " defect", "reported " + std::to_string(s.defect) + " true " + std::to_string(p.defect));
  for (int k = 0; k < p.defect; k++) {
    Real t = sx::rat(0);
    for (int j = 0; j < p.n; j++) { bool in = !p.has_subset || std::find(p.subset.begin(), p.subset.end(), j + 1) != p.subset.end(); if (in) t = t + sx::constant(p.G(j, k)) * s.x[j]; }
    sx::check_zero(t, tag + " min-norm orthogonality " + std::to_string(k + 1));
  }
  // dependent-unknown flags: as many as the defect, and deleting them leaves full column rank
  sx::check_true((int)s.lindep.size() == p.defect, tag + " number of lindep flags = defect", std::to_string(s.lindep.size()));
  // SVD::lindep(i) speaks about the i-th singular value, whose position the decomposition contract leaves open: not checked for svd
  if (!s.lindep.empty() && tag != "svd") {
    QMat R(p.m, p.n - (int)s.lindep.size()); int c = 0;
    for (int j = 0; j < p.n; j++) { if (std::find(s.lindep.begin(), s.lindep.end(), j + 1) != s.lindep.end()) continue; for (int i = 0; i < p.m; i++) R(i, c) = p.A(i, j); c++; }
    sx::check_true(qla::rank(R) == R.c, tag + " columns left after removing flagged unknowns are independent", "");
  }
  if (!s.qbb.empty()) {
    // homogenised q_bb is the orthogonal projector on range(At): idempotent, symmetric, diagonal in [0,1], trace = n - d
    Real tr = sx::rat(0);
    for (int i = 0; i < p.m; i++) {
      tr = tr + s.qbb[i][i];
      sx::check_ge0(s.qbb[i][i], tag + " 0<=h_ii row " + std::to_string(i + 1));
      sx::check_le(s.qbb[i][i], sx::rat(1), tag + " h_ii<=1 row " + std::to_string(i + 1));
      for (int j = 0; j < p.m; j++) {
        Real hh = sx::rat(0); for (int k = 0; k < p.m; k++) hh = hh + s.qbb[i][k] * s.qbb[k][j];
        sx::check_eq(hh, s.qbb[i][j], tag + " q_bb idempotent " + std::to_string(i + 1) + "," + std::to_string(j + 1));
      }
    }
    sx::check_eq(tr, sx::rat(p.n - p.defect), tag + " trace(q_bb)=n-defect");
    // projector reproduces the columns of At
    for (int i = 0; i < p.m; i++) for (int j = 0; j < p.n; j++) {
      Real t = sx::rat(0); for (int k = 0; k < p.m; k++) if (At(k, j) != 0) t = t + s.qbb[i][k] * sx::constant(At(k, j));
      sx::check_eq(t, sx::constant(At(i, j)), tag + " q_bb*A=A " + std::to_string(i + 1) + "," + std::to_string(j + 1));
    }
  }
}

// ------------------------------------------------------------------------------------------------
static void case_adj(const Problem& p) {
  std::vector<Real> b; for (int i = 0; i < p.m; i++) b.push_back(sx::input("b" + std::to_string(i + 1)));
  register_svd(p);
  std::vector<Solution> sols; std::vector<Adj::algorithm> algs = algorithms(p);
  std::vector<std::vector<std::vector<Real>>> Qs, Hs;
  for (Adj::algorithm alg : algs) {
    Adj adj;
    std::string tag = std::string(alg_name(alg));
    Solution s = run_adj(p, b, alg, adj);
    sols.push_back(s);
    if (s.thrown) {
      sx::note("exception", tag + ": " + s.what);
      if (on("C01") || on("C02") || on("C20") || on("C10"))
        sx::check_true(p.defect > 0 && !p.subset_resolves, tag + " exception only for a non-resolving regularisation", p.describe() + " what=" + s.what);
      Qs.emplace_back(); Hs.emplace_back();
      continue;
    }
    if ((on("C01") || on("C02") || on("C20")) && p.defect > 0 && !p.subset_resolves)
      sx::fail(tag + " non-resolving regularisation must not yield an adjustment", p.describe());
    if (p.defect > 0 && !p.subset_resolves) { Qs.emplace_back(); Hs.emplace_back(); continue; }
    if (on("C01") || on("C10")) check_c01(p, b, s, tag);
    if (on("C03")) check_c03(p, adj, tag);
    if (on("C02")) {
      std::vector<std::vector<Real>> Qm(p.n, std::vector<Real>(p.n)), Hm(p.m, std::vector<Real>(p.m));
      for (int i = 1; i <= p.n; i++) for (int j = 1; j <= p.n; j++) Qm[i - 1][j - 1] = adj.q_xx(i, j);
      for (int i = 1; i <= p.m; i++) for (int j = 1; j <= p.m; j++) Hm[i - 1][j - 1] = adj.q_bb(i, j);
      Qs.push_back(Qm); Hs.push_back(Hm);
    } else { Qs.emplace_back(); Hs.emplace_back(); }
  }
  if (on("C02")) {
    // pairwise agreement (against the first algorithm that produced a result)
    int ref = -1;
    for (size_t a = 0; a < sols.size(); a++) {
      if (sols[a].thrown || sols[a].x.empty()) continue;
      if (ref < 0) { ref = (int)a; continue; }
      std::string tag = std::string(alg_name(algs[a])) + " vs " + alg_name(algs[ref]);
      sx::check_true(sols[a].defect == sols[ref].defect, tag + " defect", "");
      for (int j = 0; j < p.n; j++) sx::check_eq(sols[a].x[j], sols[ref].x[j], tag + " x " + std::to_string(j + 1));
      for (int i = 0; i < p.m; i++) sx::check_eq(sols[a].r[i], sols[ref].r[i], tag + " r " + std::to_string(i + 1));
      sx::check_eq(sols[a].rtr, sols[ref].rtr, tag + " sum of squares");
      if (!Qs[a].empty() && !Qs[ref].empty()) {
        for (int i = 0; i < p.n; i++) for (int j = 0; j < p.n; j++) sx::check_eq(Qs[a][i][j], Qs[ref][i][j], tag + " q_xx " + std::to_string(i + 1) + "," + std::to_string(j + 1));
        for (int i = 0; i < p.m; i++) for (int j = 0; j < p.m; j++) sx::check_eq(Hs[a][i][j], Hs[ref][i][j], tag + " q_bb " + std::to_string(i + 1) + "," + std::to_string(j + 1));
      }
    }
    // "if the input cannot be adjusted, no algorithm reports an adjustment": all in the same class
    bool any_thrown = false, any_ok = false;
    for (auto& s : sols) { if (s.thrown) any_thrown = true; else any_ok = true; }
    sx::check_true(!(any_thrown && any_ok), "all algorithms in the same outcome class", p.describe());
    sx::reached("C02");
  }
}

static void case_base(const Problem& p) {
  std::vector<Real> b; for (int i = 0; i < p.m; i++) b.push_back(sx::input("b" + std::to_string(i + 1)));
  register_svd(p);
  QMat At; std::vector<Real> bt; homogenised(p, b, At, bt);
  Mat<Real, int, Exc> A(p.m, p.n); Vec<Real, int, Exc> rhs(p.m);
  for (int i = 0; i < p.m; i++) { rhs(i + 1) = bt[i]; for (int j = 0; j < p.n; j++) A(i + 1, j + 1) = sx::constant(At(i, j)); }
  std::vector<int> subset = p.subset;
  std::vector<BaseRun> runs; std::vector<std::string> names;
  {
    AdjEnvelope<Real, int, Exc> s; std::unique_ptr<AdjInputData> in(make_input(p, b));
    if (p.has_subset) s.min_x((int)subset.size(), subset.data());
    s.reset(in.get());
    BaseRun r; base_collect(s, p, r, true);
    check_base(p, At, bt, r, "envelope", true, b); runs.push_back(r); names.push_back("envelope");
  }
  {
    AdjCholDec<Real, int, Exc> s; if (p.has_subset) s.min_x((int)subset.size(), subset.data());
    s.reset(A, rhs); BaseRun r; base_collect(s, p, r, true);
    check_base(p, At, bt, r, "cholesky", false, b); runs.push_back(r); names.push_back("cholesky");
  }
  {
    AdjGSO<Real, int, Exc> s; if (p.has_subset) s.min_x((int)subset.size(), subset.data());
    s.reset(A, rhs); BaseRun r; base_collect(s, p, r, true);
    check_base(p, At, bt, r, "gso", false, b); runs.push_back(r); names.push_back("gso");
  }
  if (p.svd_known) {
    AdjSVD<Real, int, Exc> s; if (p.has_subset) s.min_x((int)subset.size(), subset.data());
    s.reset(A, rhs); BaseRun r; base_collect(s, p, r, true);
    check_base(p, At, bt, r, "svd", false, b); runs.push_back(r); names.push_back("svd");
  }
  // agreement of q_xx across solvers
  for (size_t a = 1; a < runs.size(); a++) {
    if (runs[a].thrown || runs[0].thrown || runs[a].qxx.empty() || runs[0].qxx.empty()) continue;
    for (int i = 0; i < p.n; i++) for (int j = 0; j < p.n; j++) sx::check_eq(runs[a].qxx[i][j], runs[0].qxx[i][j], names[a] + " vs envelope q_xx " + std::to_string(i + 1) + "," + std::to_string(j + 1));
  }
  sx::reached("base");
}

// ------------------------------------------------------------------------------------------------
static void gen_cases(const sx::Options& opt, std::vector<sx::Case>& cases) {
  g_prop = opt.prop;
  bool thorough = opt.tier == "thorough";
  std::vector<Problem> probs;
  std::vector<Skel> skels = fixed_skeletons();
  qla::Rng srng(1000 + opt.seed);
  int nrand = thorough ? 40 : 8;
  for (int i = 0; i < nrand; i++) skels.push_back(random_skeleton(srng, i));
  // low-rank skeletons (defect 3 and 4): A = B*C with random integer factors; the null vectors have unequal norms
  // over most regularisation subsets, which exercises the pivoting of the null-space orthogonalisations
  for (int i = 0; i < (thorough ? 10 : 3); i++) {
    int n = 6 + (i % 2), rk = n - 3 - (i % 2 ? 1 : 0), m = n + 1 + (i % 3);
    QMat Bf(m, rk), Cf(rk, n);
    for (int a = 0; a < m; a++) for (int b = 0; b < rk; b++) Bf(a, b) = srng.range(-2, 2);
    for (int a = 0; a < rk; a++) for (int b = 0; b < n; b++) Cf(a, b) = srng.range(-2, 3);
    QMat A = qla::mul(Bf, Cf);
    if (qla::rank(A) != rk) continue;
    skels.push_back({"lowrank" + std::to_string(i), A});
  }
  int k = 0;
  for (auto& sk : skels) {
    qla::Rng rng(77 + k * 131 + (k >= (int)fixed_skeletons().size() ? opt.seed : 0));
    bool lowrank = sk.name.rfind("lowrank", 0) == 0;
    std::vector<int> kinds = thorough ? std::vector<int>{0, 1, 2, 3, 4, 5} : std::vector<int>{k % 2, 3 + (k % 2), (k % 3 == 0) ? 5 : 2};
    if (lowrank && !thorough) kinds = std::vector<int>{0, 3};
    std::vector<std::vector<int>> subs = subsets_for(sk.A, lowrank ? (thorough ? 30 : 14) : (thorough ? 8 : 4), rng);
    for (int kind : kinds) {
      Problem base; base.name = sk.name + "/cov" + std::to_string(kind); base.m = sk.A.r; base.n = sk.A.c; base.A = sk.A;
      layout(base, kind, rng);
      if (subs.empty()) { finish(base); probs.push_back(base); }
      else {
        { Problem q = base; q.name += "/all"; finish(q); probs.push_back(q); }
        int si = 0;
        for (auto& s : subs) { Problem q = base; q.has_subset = true; q.subset = s; q.name += "/sub" + std::to_string(si++); finish(q); probs.push_back(q); }
      }
    }
    k++;
  }
  // svd family: homogenised matrix with a known rational decomposition
  int nsvd = thorough ? 16 : 5;
  for (int i = 0; i < nsvd; i++) {
    qla::Rng rng(4242 + i * 17 + opt.seed);
    int n = rng.range(2, 4), m = n + rng.range(0, 3), d = (i % 3 == 0) ? 0 : rng.range(1, std::min(2, n - 1));
    QMat Um = cayley(m, rng), V = cayley(n, rng), U(m, n), W(n, n);
    for (int a = 0; a < m; a++) for (int c = 0; c < n; c++) U(a, c) = Um(a, c);
    std::vector<int> zero; for (int c = 0; c < d; c++) zero.push_back(rng.range(0, n - 1));
    for (int c = 0; c < n; c++) W(c, c) = Q(rng.range(1, 5), rng.range(1, 2));
    for (int z : zero) W(z, z) = 0;
    Problem p; p.name = "svdfam" + std::to_string(i); p.m = m; p.n = n;
    p.A = QMat(m, n); layout(p, i % 2 == 0 ? 0 : 3, rng);
    QMat At = qla::mul(qla::mul(U, W), qla::trans(V));
    p.A = qla::mul(chol_full(p), At);
    p.svd_known = true; p.U = U; p.W = W; p.V = V;
    std::vector<std::vector<int>> subs = subsets_for(p.A, 3, rng);
    if (subs.empty()) { finish(p); probs.push_back(p); }
    else { { Problem q = p; q.name += "/all"; finish(q); probs.push_back(q); }
      int si = 0; for (auto& s : subs) { Problem q = p; q.has_subset = true; q.subset = s; q.name += "/sub" + std::to_string(si++); finish(q); probs.push_back(q); } }
  }
  for (auto& p : probs) {
    std::shared_ptr<Problem> sp = std::make_shared<Problem>(p);
    cases.push_back({"adj/" + p.name, "Adj class: " + std::string(p.defect ? "singular" : "regular"), [sp] { sx::note("problem", sp->describe()); case_adj(*sp); }});
    if (opt.prop.empty() || opt.prop == "C01" || opt.prop == "C03" || opt.prop == "C20" || opt.prop == "C16")
      cases.push_back({"base/" + p.name, "solver templates: " + std::string(p.defect ? "singular" : "regular"), [sp] { sx::note("problem", sp->describe()); case_base(*sp); }});
  }
}

int main(int argc, char** argv) { return sx::run_main(argc, argv, "adj", gen_cases); }
