// Harness "net3d": spatial polar networks (directions, slope distances, zenith angles with instrument and target heights, height
// differences) through the real GKFparser / Acord2 / reductions / LocalNetwork.  The targets lie at offsets (dx,dy,dz) from the
// station for which both sqrt(dx^2+dy^2) and sqrt(dx^2+dy^2+dz^2) are rational (9,12,20 | 12,16,15 | 3,4,12 ...), so the
// unreduced geometry is rational; instrument / target heights make the observed values radicals and arctangents of constants,
// which the engine compares numerically (512 bit).  Observed values are  true value + symbolic error.
#include "netcommon.h"
#include <fstream>

using namespace N;
static std::string g_prop;
static bool on(const char* p) { return g_prop.empty() || g_prop == p; }
static const char* ALGS[] = {"envelope", "cholesky", "gso"};

struct P3 { std::string id; Q x, y, z; std::string status; bool give = true; };          // status: gkf attributes, e.g. fix="xyz" / adj="xyz"
struct O3 { int kind; int to; Q stdev; Q th; };                                           // 0 direction, 1 s-distance, 2 z-angle ; th = target height (to_dh)
struct St3 { int from; Q zero; Q ih; std::vector<O3> obs; };                              // ih = instrument height (from_dh)
struct H3 { int from, to; Q stdev; };
struct Spec3 { std::string name; std::vector<P3> pts; std::vector<St3> st; std::vector<H3> dh; };

static Real two_pi() { return Real(2 * M_PI); }
static Real norm2pi(Real a) { while (sx::numeric0(a) < 0) a = a + two_pi(); while (sx::numeric0(a) >= sx::numeric(two_pi())) a = a - two_pi(); return a; }
static Real tval(const Spec3& s, const St3& st, const O3& ob) {
  const P3& a = s.pts[st.from]; const P3& b = s.pts[ob.to];
  Real dx = sx::constant(b.x - a.x), dy = sx::constant(b.y - a.y), dz = sx::constant(b.z - a.z + ob.th - st.ih);
  if (ob.kind == 0) return norm2pi(atan2(dy, dx) - sx::constant(st.zero));
  if (ob.kind == 1) return sqrt(dx * dx + dy * dy + dz * dz);
  return atan2(sqrt(dx * dx + dy * dy), dz);                                                // zenith angle of the sight between the elevated points
}
static std::string num(Real v, int prec) { std::ostringstream o; o.setf(std::ios::fixed); o.precision(prec); o << sx::numeric0(v); return o.str(); }
static std::string gkf3d(const Spec3& s, const std::vector<Real>& vals) {
  std::ostringstream o;
  o << "<?xml version=\"1.0\" ?>\n<gama-local xmlns=\"http://www.gnu.org/software/gama/gama-local\">\n<network>\n<description>" << s.name << "</description>\n"
    << "<parameters sigma-apr=\"10\" conf-pr=\"0.95\" tol-abs=\"1000\" sigma-act=\"apriori\" />\n<points-observations>\n";
  for (auto& p : s.pts) { o << "<point id=\"" << p.id << "\""; if (p.give) o << " x=\"" << qstr(p.x) << "\" y=\"" << qstr(p.y) << "\" z=\"" << qstr(p.z) << "\""; o << " " << p.status << " />\n"; }
  size_t k = 0;
  for (auto& st : s.st) { o << "<obs from=\"" << s.pts[st.from].id << "\""; if (st.ih != 0) o << " from_dh=\"" << qstr(st.ih) << "\""; o << ">\n";
    for (auto& ob : st.obs) { Real v = vals[k++]; std::string to = s.pts[ob.to].id, dh = ob.th != 0 ? " to_dh=\"" + qstr(ob.th) + "\"" : "";
      if (ob.kind == 0) o << "<direction to=\"" << to << "\" val=\"" << num(v * sx::rat(200) / Real(M_PI), 6) << "\" stdev=\"" << qstr(ob.stdev) << "\" />\n";
      if (ob.kind == 1) o << "<s-distance to=\"" << to << "\" val=\"" << num(v, 5) << "\" stdev=\"" << qstr(ob.stdev) << "\"" << dh << " />\n";
      if (ob.kind == 2) o << "<z-angle to=\"" << to << "\" val=\"" << num(v * sx::rat(200) / Real(M_PI), 6) << "\" stdev=\"" << qstr(ob.stdev) << "\"" << dh << " />\n"; }
    o << "</obs>\n"; }
  if (!s.dh.empty()) { o << "<height-differences>\n"; for (auto& h : s.dh) { Real v = vals[k++]; o << "<dh from=\"" << s.pts[h.from].id << "\" to=\"" << s.pts[h.to].id << "\" val=\"" << num(v, 5) << "\" stdev=\"" << qstr(h.stdev) << "\" />\n"; } o << "</height-differences>\n"; }
  o << "</points-observations>\n</network>\n</gama-local>\n";
  return o.str();
}
struct B3 { Spec3 spec; Net net; std::vector<Observation*> obs; std::vector<Real> val; };
static std::vector<Real> values(const Spec3& s, const std::vector<Real>& err) {
  std::vector<Real> v; size_t k = 0;
  for (auto& st : s.st) for (auto& ob : st.obs) v.push_back(tval(s, st, ob) + err[k++]);
  for (auto& h : s.dh) v.push_back(sx::constant(s.pts[h.to].z - s.pts[h.from].z) + err[k++]);
  return v;
}
static size_t nobs(const Spec3& s) { size_t n = s.dh.size(); for (auto& st : s.st) n += st.obs.size(); return n; }
static bool build3d(B3& b, const Spec3& spec, const std::vector<Real>& err, const std::string& alg) {
  b.spec = spec; b.val = values(spec, err);
  std::string text = gkf3d(spec, b.val);
  if (const char* d = getenv("SX_DUMP_GKF")) { static int n = 0; std::ofstream f(std::string(d) + "." + std::to_string(++n) + ".gkf"); f << text; }
  if (!b.net.parse(text)) { sx::fail("generated input rejected by the parser", b.net.parse_error + " line " + std::to_string(b.net.parse_line)); return false; }
  b.obs = b.net.all_obs();
  if (b.obs.size() != b.val.size()) { sx::fail("parser produced a different number of observations", std::to_string(b.obs.size())); return false; }
  for (size_t k = 0; k < b.obs.size(); k++) b.obs[k]->set_value(b.val[k]);
  b.net.prepare(alg, true);            // algorithm, Acord2, reductions for instrument / target heights (as gama-local's main())
  return true;
}
struct R3 { bool ok = false; std::string why; std::map<std::string, Real> x; std::vector<Real> xv; std::vector<std::string> xn;   /* by index: two sets at one station have two orientation unknowns of the same name */ std::vector<Real> r; Real vpv; int dof = 0, defect = 0, n = 0, m = 0; };
static std::string uname(LocalNetwork* IS, int i) { return IS->unknown_pointid(i).str() + "." + IS->unknown_type(i); }
static R3 run3d(B3& b) {
  R3 r; LocalNetwork* IS = b.net.IS.get();
  try {
    if (IS->huge_abs_terms()) IS->remove_huge_abs_terms();
    int d = IS->null_space();
    try { if (IS->min_n() < d) throw MatVecException(GNU_gama::Exception::BadRegularization, "not enough constrained points"); IS->trans_VWV(); }
    catch (const MatVecException& vs) { if (vs.error() != GNU_gama::Exception::BadRegularization) throw; r.why = "network can not be adjusted"; return r; }
    const GNU_gama::local::Vec& x = IS->solve(); r.n = IS->unknowns_count(); r.m = IS->observations_count();
    for (int i = 1; i <= r.n; i++) { r.x[uname(IS, i)] = x(i); r.xv.push_back(x(i)); r.xn.push_back(uname(IS, i)); }
    const GNU_gama::local::Vec& v = IS->residuals(); for (int i = 1; i <= r.m; i++) r.r.push_back(v(i));
    r.vpv = IS->trans_VWV(); r.dof = IS->degrees_of_freedom(); r.defect = IS->null_space(); r.ok = true;
  } catch (const GNU_gama::local::Exception& e) { r.why = std::string("exception: ") + e.what(); }
    catch (const GNU_gama::Exception::matvec& e) { r.why = std::string("matvec exception: ") + e.what(); }
  return r;
}
static void near0(Real v, const mpq_class& tol, const std::string& label) { sx::check_le(v, sx::constant(tol), label); sx::check_le(-v, sx::constant(tol), label); }

// C06: error-free observations (with instrument / target heights) give zero corrections and residuals
static void case_consistent(const Spec3& spec0, int alg, bool omit) {
  Spec3 spec = spec0; if (omit) for (auto& p : spec.pts) if (p.status.find("adj") != std::string::npos) p.give = false;
  std::vector<Real> err(nobs(spec), sx::rat(0));
  B3 b; if (!build3d(b, spec, err, ALGS[alg])) return; std::string tag = std::string(ALGS[alg]) + (omit ? " (approximate coordinates by Acord2)" : "");
  LocalNetwork* IS = b.net.IS.get();
  std::map<std::string, std::vector<Real>> approx;
  for (auto& p : spec.pts) { const LocalPoint& lp = IS->PD[PointID(p.id)]; sx::check_true(lp.test_xy() && lp.test_z(), tag + " point " + p.id + " has coordinates", ""); if (!lp.test_xy() || !lp.test_z()) return;
    approx[p.id] = {lp.x(), lp.y(), lp.z()};
    // approximate coordinates computed by Acord2 need only be approximate (slope observations with instrument heights are used unreduced)
    if (omit && !p.give) { near0(lp.x() - sx::constant(p.x), mpq_class(1, 10), tag + " approximate x of " + p.id + " within 0.1 m of the generating one"); near0(lp.y() - sx::constant(p.y), mpq_class(1, 10), tag + " approximate y of " + p.id + " within 0.1 m of the generating one");
      near0(lp.z() - sx::constant(p.z), mpq_class(1, 10), tag + " approximate z of " + p.id + " within 0.1 m of the generating one"); } }
  R3 r = run3d(b); sx::check_true(r.ok, tag + " adjusted", r.why); if (!r.ok) return;
  sx::check_true(r.m == (int)nobs(spec), tag + " every observation takes part", std::to_string(r.m));
  // adjusted = approximate + correction equals the generating coordinate (to the second-order term of the linearisation: 1e-6 m)
  for (auto& kv : r.x) { char t = kv.first.back(); if (t == 'R') continue; std::string id = kv.first.substr(0, kv.first.size() - 2); const P3* pp = nullptr; for (auto& p : spec.pts) if (p.id == id) pp = &p; if (!pp) continue;
    Real a = approx[id][t == 'X' ? 0 : t == 'Y' ? 1 : 2], g = sx::constant(t == 'X' ? pp->x : t == 'Y' ? pp->y : pp->z);
    near0(a + kv.second / sx::rat(1000) - g, mpq_class(1, 1000000), tag + " adjusted " + kv.first + " equals the generating coordinate"); }
  for (size_t i = 0; i < r.r.size(); i++) near0(r.r[i], mpq_class(1, 100), tag + " zero residual " + std::to_string(i + 1));
  sx::check_true(IS->removed_points.empty(), tag + " nothing removed", "");
  sx::reached("net3d-consistent");
}

// C01 / C02: with symbolic errors the solution satisfies the normal equations of the equations gama hands out, and the algorithms agree
static void case_agree(const Spec3& spec) {
  // (the errors of one direction set in increasing order: gama sorts the preliminary orientations of a set, every order would be a path)
  std::vector<Real> err; { size_t k = 0; for (auto& st : spec.st) { int last_dir = -1; for (auto& ob : st.obs) { Real e = sx::input("e" + std::to_string(++k)); if (ob.kind == 1) sx::assume_range(e, Q(-1, 100), Q(1, 100)); else sx::assume_range(e, Q(-1, 10000), Q(1, 10000));
        if (ob.kind == 0) { if (last_dir >= 0) sx::assume_lt(err[last_dir], e); last_dir = (int)err.size(); } err.push_back(e); } }
    for (auto& h : spec.dh) { (void)h; Real e = sx::input("e" + std::to_string(++k)); sx::assume_range(e, Q(-1, 100), Q(1, 100)); err.push_back(e); } }
  std::vector<R3> rs;
  for (int alg = 0; alg < 3; alg++) { B3 b; if (!build3d(b, spec, err, ALGS[alg])) return; std::string tag = ALGS[alg];
    R3 r = run3d(b); sx::check_true(r.ok, tag + " adjusted", r.why); if (!r.ok) return; LocalNetwork* IS = b.net.IS.get();
    if (on("C01")) { GNU_gama::local::Mat A; GNU_gama::local::Vec rhs, w; IS->project_equations(A, rhs, w);
      sx::check_true(A.rows() == r.m && A.cols() == r.n, tag + " dimensions of the equations", ""); if (A.rows() != r.m || A.cols() != r.n) return;
      std::vector<Real> x = r.xv;
      for (int i = 1; i <= r.m; i++) { Real ax = sx::rat(0); for (int j = 1; j <= r.n; j++) ax = ax + A(i, j) * x[j - 1]; sx::check_eq(r.r[i - 1], ax - rhs(i), tag + " residual = Ax - b, row " + std::to_string(i)); }
      for (int j = 1; j <= r.n; j++) { Real t = sx::rat(0); for (int i = 1; i <= r.m; i++) t = t + A(i, j) * w(i) * r.r[i - 1]; sx::check_zero(t, tag + " normal equation " + uname(IS, j)); }
      Real vpv = sx::rat(0); for (int i = 1; i <= r.m; i++) vpv = vpv + w(i) * r.r[i - 1] * r.r[i - 1]; sx::check_eq(r.vpv, vpv, tag + " sum of squares");
      sx::check_true(r.defect == 0 && r.dof == r.m - r.n, tag + " defect 0, degrees of freedom", ""); }
    rs.push_back(r); }
  if (on("C02")) for (size_t a = 1; a < rs.size(); a++) { std::string t = std::string(ALGS[a]) + " vs envelope";
    sx::check_true(rs[a].xn == rs[0].xn, t + " same unknowns in the same order", "");
    if (rs[a].xn == rs[0].xn) for (size_t j = 0; j < rs[0].xv.size(); j++) sx::check_eq(rs[a].xv[j], rs[0].xv[j], t + " correction of " + rs[0].xn[j] + " (unknown " + std::to_string(j + 1) + ")");
    for (size_t i = 0; i < rs[0].r.size(); i++) sx::check_eq(rs[a].r[i], rs[0].r[i], t + " residual " + std::to_string(i + 1));
    sx::check_eq(rs[a].vpv, rs[0].vpv, t + " sum of squares"); }
  sx::reached("net3d-agree");
}

static Spec3 polar(const std::string& name, bool heights, bool second_station, bool second_without_ih = false) {
  Spec3 s; s.name = name; Q X0 = 1000, Y0 = 2000, Z0 = 300;
  s.pts.push_back({"S", X0, Y0, Z0, "fix=\"xyz\"", true});
  Q off[5][3] = {{90, 120, 200}, {120, -160, 150}, {-30, 40, 120}, {-120, -90, 200}, {160, 120, -150}};
  // T4 is a second fixed point: it fixes the orientation of the direction sets (one fixed point alone leaves the rotation free)
  for (int i = 0; i < 4; i++) s.pts.push_back({"T" + std::to_string(i + 1), X0 + off[i][0], Y0 + off[i][1], Z0 + off[i][2], i == 3 ? "fix=\"xyz\"" : "adj=\"xyz\"", true});
  St3 st; st.from = 0; st.zero = Q(7, 10); st.ih = heights ? Q(3, 2) : Q(0);
  for (int i = 1; i <= 4; i++) { Q th = heights ? Q(10 + i, 10) : Q(0); st.obs.push_back({0, i, Q(10), Q(0)}); st.obs.push_back({1, i, Q(5), th}); st.obs.push_back({2, i, Q(12), th}); }
  s.st.push_back(st);
  if (second_station) { St3 t2; t2.from = 0; t2.zero = Q(31, 10); t2.ih = (heights && !second_without_ih) ? Q(8, 5) : Q(0);      // (second_without_ih: the second set carries no from_dh attribute)           // the same station set up again: another circle zero and instrument height
    for (int i = 1; i <= 4; i++) { Q th = heights ? Q(20 - i, 10) : Q(0); t2.obs.push_back({0, i, Q(15), Q(0)}); t2.obs.push_back({1, i, Q(4), th}); t2.obs.push_back({2, i, Q(10), th}); } s.st.push_back(t2); }
  s.dh.push_back({1, 2, Q(3)}); s.dh.push_back({2, 3, Q(2)}); s.dh.push_back({3, 4, Q(3)}); s.dh.push_back({4, 1, Q(2)});
  return s;
}

static void gen_cases(const sx::Options& opt, std::vector<sx::Case>& cases) {
  g_prop = opt.prop; bool th = opt.tier == "thorough";
  auto add = [&](const std::string& n, const std::string& fam, std::function<void()> f) { cases.push_back({n, fam, f}); };
  std::vector<Spec3> specs{polar("polar-plain", false, false), polar("polar-heights", true, false), polar("polar-heights-2sets", true, true), polar("polar-heights-2sets-second-without-ih", true, true, true)};
  // (omitted approximate coordinates only without instrument heights: Acord2 uses the slope observations unreduced, its result is then
  //  0.1-0.2 m off and gama-local needs several re-linearisations, which the exact engine cannot follow)
  if (on("C06")) { int k = 0; for (auto& s : specs) for (int omit = 0; omit < 2; omit++) { if (omit && s.name != "polar-plain") continue; int alg = (k++) % 3; auto sp = std::make_shared<Spec3>(s);
      add("net3d/consistent/" + s.name + "/" + ALGS[alg] + (omit ? "/acord" : "/given"), "spatial networks", [sp, alg, omit] { case_consistent(*sp, alg, omit != 0); }); } }
  if (on("C01") || on("C02")) for (auto& s : specs) { if (!th && s.name == "polar-plain") continue; auto sp = std::make_shared<Spec3>(s); add("net3d/agree/" + s.name, "spatial networks", [sp] { case_agree(*sp); }); }
}
int main(int argc, char** argv) { GNU_gama::local::set_gama_language(GNU_gama::local::en); return sx::run_main(argc, argv, "net3d", gen_cases); }
