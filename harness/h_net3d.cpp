// Harness "net3d": spatial polar networks (directions, slope distances, zenith angles with instrument and target heights, height
// differences) through the real GKFparser / Acord2 / reductions / LocalNetwork.  The targets lie at offsets (dx,dy,dz) from the
// station for which both sqrt(dx^2+dy^2) and sqrt(dx^2+dy^2+dz^2) are rational (9,12,20 | 12,16,15 | 3,4,12 ...), so the
// unreduced geometry is rational; instrument / target heights make the observed values radicals and arctangents of constants,
// which the engine compares numerically (512 bit).  Observed values are  true value + symbolic error.
#include "netcommon.h"
#include <fstream>
#include <gnu_gama/xml/localnetworkxml.h>
#include <gnu_gama/xml/localnetwork_adjustment_results.h>
#include <gnu_gama/statan.h>

using namespace N;
static std::string g_prop;
static bool on(const char* p) { return g_prop.empty() || g_prop == p; }
static const char* ALGS[] = {"envelope", "cholesky", "gso"};

struct P3 { std::string id; Q x, y, z; std::string status; bool give = true; };          // status: gkf attributes, e.g. fix="xyz" / adj="xyz"
struct O3 { int kind; int to; Q stdev; Q th; };                                           // 0 direction, 1 s-distance, 2 z-angle ; th = target height (to_dh)
struct St3 { int from; Q zero; Q ih; std::vector<O3> obs; };                              // ih = instrument height (from_dh)
struct H3 { int from, to; Q stdev; };
struct Spec3 { std::string name; std::vector<P3> pts; std::vector<St3> st; std::vector<H3> dh; };

static Real two_pi() { return Real(2 * M_PI); }
static Real norm2pi(Real a) { while (sx::numeric0(a) < 0) a = a + two_pi(); while (sx::numeric0(a) >= sx::numeric(two_pi())) a = a - two_pi(); return a; }
static Real tval(const Spec3& s, const St3& st, const O3& ob) {
  const P3& a = s.pts[st.from]; const P3& b = s.pts[ob.to];
  Real dx = sx::constant(b.x - a.x), dy = sx::constant(b.y - a.y), dz = sx::constant(b.z - a.z + ob.th - st.ih);
  if (ob.kind == 0) return norm2pi(atan2(dy, dx) - sx::constant(st.zero));
  if (ob.kind == 1) return sqrt(dx * dx + dy * dy + dz * dz);
  return atan2(sqrt(dx * dx + dy * dy), dz);                                                // zenith angle of the sight between the elevated points
}
static std::string num(Real v, int prec) { std::ostringstream o; o.setf(std::ios::fixed); o.precision(prec); o << sx::numeric0(v); return o.str(); }
static std::string gkf3d(const Spec3& s, const std::vector<Real>& vals) {
  std::ostringstream o;
  o << "<?xml version=\"1.0\" ?>\n<gama-local xmlns=\"http://www.gnu.org/software/gama/gama-local\">\n<network>\n<description>" << s.name << "</description>\n"
    << "<parameters sigma-apr=\"10\" conf-pr=\"0.95\" tol-abs=\"1000\" sigma-act=\"apriori\" />\n<points-observations>\n";
  for (auto& p : s.pts) { o << "<point id=\"" << p.id << "\""; if (p.give) o << " x=\"" << qstr(p.x) << "\" y=\"" << qstr(p.y) << "\" z=\"" << qstr(p.z) << "\""; o << " " << p.status << " />\n"; }
  size_t k = 0;
  for (auto& st : s.st) { o << "<obs from=\"" << s.pts[st.from].id << "\""; if (st.ih != 0) o << " from_dh=\"" << qstr(st.ih) << "\""; o << ">\n";
    for (auto& ob : st.obs) { Real v = vals[k++]; std::string to = s.pts[ob.to].id, dh = ob.th != 0 ? " to_dh=\"" + qstr(ob.th) + "\"" : "";
      if (ob.kind == 0) o << "<direction to=\"" << to << "\" val=\"" << num(v * sx::rat(200) / Real(M_PI), 6) << "\" stdev=\"" << qstr(ob.stdev) << "\" />\n";
      if (ob.kind == 1) o << "<s-distance to=\"" << to << "\" val=\"" << num(v, 5) << "\" stdev=\"" << qstr(ob.stdev) << "\"" << dh << " />\n";
      if (ob.kind == 2) o << "<z-angle to=\"" << to << "\" val=\"" << num(v * sx::rat(200) / Real(M_PI), 6) << "\" stdev=\"" << qstr(ob.stdev) << "\"" << dh << " />\n"; }
    o << "</obs>\n"; }
  if (!s.dh.empty()) { o << "<height-differences>\n"; for (auto& h : s.dh) { Real v = vals[k++]; o << "<dh from=\"" << s.pts[h.from].id << "\" to=\"" << s.pts[h.to].id << "\" val=\"" << num(v, 5) << "\" stdev=\"" << qstr(h.stdev) << "\" />\n"; } o << "</height-differences>\n"; }
  o << "</points-observations>\n</network>\n</gama-local>\n";
  return o.str();
}
struct B3 { Spec3 spec; Net net; std::vector<Observation*> obs; std::vector<Real> val; };
static std::vector<Real> values(const Spec3& s, const std::vector<Real>& err) {
  std::vector<Real> v; size_t k = 0;
  for (auto& st : s.st) for (auto& ob : st.obs) v.push_back(tval(s, st, ob) + err[k++]);
  for (auto& h : s.dh) v.push_back(sx::constant(s.pts[h.to].z - s.pts[h.from].z) + err[k++]);
  return v;
}
static size_t nobs(const Spec3& s) { size_t n = s.dh.size(); for (auto& st : s.st) n += st.obs.size(); return n; }
static bool build3d(B3& b, const Spec3& spec, const std::vector<Real>& err, const std::string& alg) {
  b.spec = spec; b.val = values(spec, err);
  std::string text = gkf3d(spec, b.val);
  if (const char* d = getenv("SX_DUMP_GKF")) { static int n = 0; std::ofstream f(std::string(d) + "." + std::to_string(++n) + ".gkf"); f << text; }
  if (!b.net.parse(text)) { sx::fail("generated input rejected by the parser", b.net.parse_error + " line " + std::to_string(b.net.parse_line)); return false; }
  b.obs = b.net.all_obs();
  if (b.obs.size() != b.val.size()) { sx::fail("parser produced a different number of observations", std::to_string(b.obs.size())); return false; }
  for (size_t k = 0; k < b.obs.size(); k++) b.obs[k]->set_value(b.val[k]);
  b.net.prepare(alg, true);            // algorithm, Acord2, reductions for instrument / target heights (as gama-local's main())
  return true;
}
struct R3 { bool ok = false; std::string why; std::map<std::string, Real> x; std::vector<Real> xv; std::vector<std::string> xn;   /* by index: two sets at one station have two orientation unknowns of the same name */ std::vector<Real> r; Real vpv; int dof = 0, defect = 0, n = 0, m = 0; };
static std::string uname(LocalNetwork* IS, int i) { return IS->unknown_pointid(i).str() + "." + IS->unknown_type(i); }
static R3 run3d(B3& b) {
  R3 r; LocalNetwork* IS = b.net.IS.get();
  try {
    if (IS->huge_abs_terms()) IS->remove_huge_abs_terms();
    int d = IS->null_space();
    try { if (IS->min_n() < d) throw MatVecException(GNU_gama::Exception::BadRegularization, "not enough constrained points"); IS->trans_VWV(); }
    catch (const MatVecException& vs) { if (vs.error() != GNU_gama::Exception::BadRegularization) throw; r.why = "network can not be adjusted"; return r; }
    const GNU_gama::local::Vec& x = IS->solve(); r.n = IS->unknowns_count(); r.m = IS->observations_count();
    for (int i = 1; i <= r.n; i++) { r.x[uname(IS, i)] = x(i); r.xv.push_back(x(i)); r.xn.push_back(uname(IS, i)); }
    const GNU_gama::local::Vec& v = IS->residuals(); for (int i = 1; i <= r.m; i++) r.r.push_back(v(i));
    r.vpv = IS->trans_VWV(); r.dof = IS->degrees_of_freedom(); r.defect = IS->null_space(); r.ok = true;
  } catch (const GNU_gama::local::Exception& e) { r.why = std::string("exception: ") + e.what(); }
    catch (const GNU_gama::Exception::matvec& e) { r.why = std::string("matvec exception: ") + e.what(); }
  return r;
}
static void near0(Real v, const mpq_class& tol, const std::string& label) { sx::check_le(v, sx::constant(tol), label); sx::check_le(-v, sx::constant(tol), label); }

// C06: error-free observations (with instrument / target heights) give zero corrections and residuals
static void case_consistent(const Spec3& spec0, int alg, bool omit, bool structure_only = false) {
  Spec3 spec = spec0; if (omit) for (auto& p : spec.pts) if (p.status.find("adj") != std::string::npos) p.give = false;
  std::vector<Real> err(nobs(spec), sx::rat(0));
  B3 b; if (!build3d(b, spec, err, ALGS[alg])) return; std::string tag = std::string(ALGS[alg]) + (omit ? " (approximate coordinates by Acord2)" : "");
  LocalNetwork* IS = b.net.IS.get();
  std::map<std::string, std::vector<Real>> approx;
  for (auto& p : spec.pts) { const LocalPoint& lp = IS->PD[PointID(p.id)]; sx::check_true(lp.test_xy() && lp.test_z(), tag + " point " + p.id + " has coordinates", ""); if (!lp.test_xy() || !lp.test_z()) return;
    approx[p.id] = {lp.x(), lp.y(), lp.z()};
    // approximate coordinates computed by Acord2 need only be approximate (slope observations with instrument heights are used unreduced)
    if (omit && !p.give && !structure_only) { near0(lp.x() - sx::constant(p.x), mpq_class(1, 10), tag + " approximate x of " + p.id + " within 0.1 m of the generating one"); near0(lp.y() - sx::constant(p.y), mpq_class(1, 10), tag + " approximate y of " + p.id + " within 0.1 m of the generating one");
      near0(lp.z() - sx::constant(p.z), mpq_class(1, 10), tag + " approximate z of " + p.id + " within 0.1 m of the generating one"); } }
  if (structure_only) {          // with instrument / target heights the approximate coordinates are approximate only and gama-local iterates, which the exact
    // engine cannot follow; what is checked is that no observation of the consistent network is thrown away as an outlier on the way
    bool huge = IS->huge_abs_terms(); std::string which; if (huge) for (int i = 1; i <= IS->observations_count(); i++) if (sx::numeric0(IS->test_abs_term(i)) != 0) { std::ostringstream w; w << " obs " << i << ": " << sx::numeric0(IS->test_abs_term(i)); which += w.str(); }
    if (huge) for (auto& p : spec.pts) { std::ostringstream w; w.precision(12); w << " " << p.id << "=(" << sx::numeric0(approx[p.id][0]) << "," << sx::numeric0(approx[p.id][1]) << "," << sx::numeric0(approx[p.id][2]) << ")"; which += w.str(); }
    sx::check_true(!huge, tag + " no observation has an outlying absolute term (none is removed)", which);
    sx::reached("net3d-consistent"); return; }
  R3 r = run3d(b); sx::check_true(r.ok, tag + " adjusted", r.why); if (!r.ok) return;
  sx::check_true(r.m == (int)nobs(spec), tag + " every observation takes part", std::to_string(r.m));
  // adjusted = approximate + correction equals the generating coordinate (to the second-order term of the linearisation: 1e-6 m)
  for (auto& kv : r.x) { char t = kv.first.back(); if (t == 'R') continue; std::string id = kv.first.substr(0, kv.first.size() - 2); const P3* pp = nullptr; for (auto& p : spec.pts) if (p.id == id) pp = &p; if (!pp) continue;
    Real a = approx[id][t == 'X' ? 0 : t == 'Y' ? 1 : 2], g = sx::constant(t == 'X' ? pp->x : t == 'Y' ? pp->y : pp->z);
    near0(a + kv.second / sx::rat(1000) - g, mpq_class(1, 1000000), tag + " adjusted " + kv.first + " equals the generating coordinate"); }
  for (size_t i = 0; i < r.r.size(); i++) near0(r.r[i], mpq_class(1, 100), tag + " zero residual " + std::to_string(i + 1));
  sx::check_true(IS->removed_points.empty(), tag + " nothing removed", "");
  sx::reached("net3d-consistent");
}

// C01 / C02: with symbolic errors the solution satisfies the normal equations of the equations gama hands out, and the algorithms agree
static void case_agree(const Spec3& spec) {
  // (the errors of one direction set in increasing order: gama sorts the preliminary orientations of a set, every order would be a path)
  std::vector<Real> err; { size_t k = 0; for (auto& st : spec.st) { int last_dir = -1; for (auto& ob : st.obs) { Real e = sx::input("e" + std::to_string(++k)); if (ob.kind == 1) sx::assume_range(e, Q(-1, 100), Q(1, 100)); else sx::assume_range(e, Q(-1, 10000), Q(1, 10000));
        if (ob.kind == 0) { if (last_dir >= 0) sx::assume_lt(err[last_dir], e); last_dir = (int)err.size(); } err.push_back(e); } }
    for (auto& h : spec.dh) { (void)h; Real e = sx::input("e" + std::to_string(++k)); sx::assume_range(e, Q(-1, 100), Q(1, 100)); err.push_back(e); } }
  std::vector<R3> rs;
  for (int alg = 0; alg < 3; alg++) { B3 b; if (!build3d(b, spec, err, ALGS[alg])) return; std::string tag = ALGS[alg];
    R3 r = run3d(b); sx::check_true(r.ok, tag + " adjusted", r.why); if (!r.ok) return; LocalNetwork* IS = b.net.IS.get();
    if (on("C01")) { GNU_gama::local::Mat A; GNU_gama::local::Vec rhs, w; IS->project_equations(A, rhs, w);
      sx::check_true(A.rows() == r.m && A.cols() == r.n, tag + " dimensions of the equations", ""); if (A.rows() != r.m || A.cols() != r.n) return;
      std::vector<Real> x = r.xv;
      for (int i = 1; i <= r.m; i++) { Real ax = sx::rat(0); for (int j = 1; j <= r.n; j++) ax = ax + A(i, j) * x[j - 1]; sx::check_eq(r.r[i - 1], ax - rhs(i), tag + " residual = Ax - b, row " + std::to_string(i)); }
      for (int j = 1; j <= r.n; j++) { Real t = sx::rat(0); for (int i = 1; i <= r.m; i++) t = t + A(i, j) * w(i) * r.r[i - 1]; sx::check_zero(t, tag + " normal equation " + uname(IS, j)); }
      Real vpv = sx::rat(0); for (int i = 1; i <= r.m; i++) vpv = vpv + w(i) * r.r[i - 1] * r.r[i - 1]; sx::check_eq(r.vpv, vpv, tag + " sum of squares");
      sx::check_true(r.defect == 0 && r.dof == r.m - r.n, tag + " defect 0, degrees of freedom", ""); }
    rs.push_back(r); }
  if (on("C02")) for (size_t a = 1; a < rs.size(); a++) { std::string t = std::string(ALGS[a]) + " vs envelope";
    sx::check_true(rs[a].xn == rs[0].xn, t + " same unknowns in the same order", "");
    if (rs[a].xn == rs[0].xn) for (size_t j = 0; j < rs[0].xv.size(); j++) sx::check_eq(rs[a].xv[j], rs[0].xv[j], t + " correction of " + rs[0].xn[j] + " (unknown " + std::to_string(j + 1) + ")");
    for (size_t i = 0; i < rs[0].r.size(); i++) sx::check_eq(rs[a].r[i], rs[0].r[i], t + " residual " + std::to_string(i + 1));
    sx::check_eq(rs[a].vpv, rs[0].vpv, t + " sum of squares"); }
  sx::reached("net3d-agree");
}


// C13 (description part): the file written by export_xml describes the same survey -- observation types, end points, values, standard
// deviations and instrument / target heights (from_dh, to_dh, bs_dh, fs_dh), the heights being symbols of any sign, zero included;
// points with status and coordinates, parameters.  No adjustment is involved (export_xml does not need one).
static int okind(Observation* o) { if (dynamic_cast<Direction*>(o)) return 0; if (dynamic_cast<S_Distance*>(o)) return 1; if (dynamic_cast<Z_Angle*>(o)) return 2; if (dynamic_cast<Distance*>(o)) return 3;
  if (dynamic_cast<Angle*>(o)) return 4; if (dynamic_cast<H_Diff*>(o)) return 5; if (dynamic_cast<Azimuth*>(o)) return 6; return 9; }
static void case_export_description(bool obs_level_ih, const std::string& axes = "ne", const std::string& handed = "left-handed", bool covmat = false, bool degrees = false) {
  std::ostringstream o;
  o << "<?xml version=\"1.0\" ?>\n<gama-local xmlns=\"http://www.gnu.org/software/gama/gama-local\">\n<network axes-xy=\"" << axes << "\" angles=\"" << handed << "\">\n<description>export of instrument and target heights</description>\n"
    << "<parameters sigma-apr=\"10\" conf-pr=\"0.95\" tol-abs=\"1000\" sigma-act=\"apriori\"" << (degrees ? " angles=\"360\"" : "") << " />\n<points-observations>\n"
    << "<point id=\"S\" x=\"1000\" y=\"2000\" z=\"300\" fix=\"xyz\" />\n<point id=\"T1\" x=\"1090\" y=\"2120\" z=\"500\" adj=\"xyz\" />\n<point id=\"T2\" x=\"1120\" y=\"1840\" z=\"450\" adj=\"xyZ\" />\n<point id=\"T4\" x=\"880\" y=\"1910\" z=\"500\" fix=\"xy\" adj=\"z\" />\n"
    << "<obs from=\"S\"" << (obs_level_ih ? " from_dh=\"1.5\"" : "") << ">\n"
    << "<direction to=\"T1\" val=\"" << (degrees ? "9-30-00" : "10") << "\" stdev=\"10\" />\n<direction to=\"T2\" val=\"" << (degrees ? "108-15-30.5" : "120") << "\" stdev=\"11\" />\n"
    << "<s-distance to=\"T1\" val=\"250\" stdev=\"5\" to_dh=\"1.1\" />\n<z-angle to=\"T1\" val=\"" << (degrees ? "36-00-00" : "40") << "\" stdev=\"12\" to_dh=\"1.1\" />\n"
    << "<s-distance to=\"T2\" val=\"260\" stdev=\"6\" from_dh=\"1.6\" to_dh=\"1.2\" />\n<z-angle to=\"T2\" val=\"" << (degrees ? "54-07-12.25" : "60") << "\" stdev=\"13\" from_dh=\"1.6\" to_dh=\"1.2\" />\n"
    << "<distance to=\"T2\" val=\"200\" stdev=\"7\" />\n"
    << "<angle bs=\"T1\" fs=\"T2\" val=\"" << (degrees ? "99-59-59.5" : "110") << "\" stdev=\"14\" from_dh=\"1.5\" bs_dh=\"1.1\" fs_dh=\"1.2\" />\n"
    << "<azimuth to=\"T4\" val=\"" << (degrees ? "225-45-00" : "250") << "\" stdev=\"15\" />\n";
  // a banded covariance matrix for the station (units of the input: cc^2, mm^2): diagonal = squares of the standard deviations above
  if (covmat) { int sd[9] = {10, 11, 5, 12, 6, 13, 7, 14, 15}; o << "<cov-mat dim=\"9\" band=\"1\">\n"; for (int i = 0; i < 9; i++) { o << sd[i] * sd[i]; if (i < 8) o << " " << (i % 2 ? -1 : 1) * (sd[i] * sd[i + 1]) / 4; o << "\n"; } o << "</cov-mat>\n"; }
  o << "</obs>\n"
    << "<height-differences>\n<dh from=\"T1\" to=\"T2\" val=\"-50\" stdev=\"3\" />\n<dh from=\"T2\" to=\"T4\" val=\"50\" dist=\"0.8\" />\n</height-differences>\n"
    << "</points-observations>\n</network>\n</gama-local>\n";
  Net a; if (!a.parse(o.str())) { sx::fail("generated input rejected by the parser", a.parse_error + " line " + std::to_string(a.parse_line)); return; }
  std::vector<Observation*> oa = a.all_obs(); sx::check_true(oa.size() == 11, "the parser produced the 11 observations", std::to_string(oa.size())); if (oa.size() != 11) return;
  // symbolic heights: the instrument, the two targets, a second instrument height; symbolic values
  Real h1 = sx::input("ih"), h2 = sx::input("th1"), h3 = sx::input("th2"), h4 = sx::input("ih2"); for (Real h : {h1, h2, h3, h4}) sx::assume_range(h, Q(-3), Q(3));
  for (size_t k = 0; k < oa.size(); k++) { Observation* ob = oa[k]; int kd = okind(ob); Real v = sx::input("v" + std::to_string(k + 1));
    if (kd == 0 || kd == 4 || kd == 6) sx::assume_range(v, Q(1, 100), Q(628, 100)); else if (kd == 2) sx::assume_range(v, Q(1, 100), Q(314, 100)); else if (kd == 5) sx::assume_range(v, Q(-500), Q(500)); else sx::assume_range(v, Q(1), Q(5000));
    bool angular = (kd == 0 || kd == 2 || kd == 4 || kd == 6); if (!(degrees && angular)) ob->set_value(v);      // (sexagesimal printing is followed on constants only)
    bool t2 = ob->to().str() == "T2";
    if (kd == 1 || kd == 2) { ob->set_from_dh(t2 ? h4 : h1); ob->set_to_dh(t2 ? h3 : h2); }
    else if (kd == 4) { Angle* an = static_cast<Angle*>(ob); an->set_from_dh(h1); an->set_bs_dh(h2); an->set_fs_dh(h3); }
    else if (kd == 0 || kd == 3 || kd == 6) { if (obs_level_ih) ob->set_from_dh(h1); } }
  LocalNetwork* A = a.IS.get(); std::vector<Observation*> prev = oa;
  if (covmat) { auto c = A->OD.clusters.begin(); sx::check_true(c != A->OD.clusters.end() && (*c)->covariance_matrix.dim() == 9 && (*c)->covariance_matrix.bandWidth() == 1, "the covariance matrix of the station was read with band 1", ""); }
  A->remove_inconsistency();                                        // as gama-local does before adjusting; export happens in this state
  { Real x = sx::input("x1"), y = sx::input("y1"), z = sx::input("z1"); for (Real c : {x, y, z}) sx::assume_range(c, Q(-5000), Q(5000)); LocalPoint& p = A->PD[PointID("T1")]; p.set_xy(x, y); p.set_z(z); }
  std::vector<std::unique_ptr<Net>> keep;
  for (int round = 1; round <= 2; round++) { std::string t = "export round " + std::to_string(round);
    std::string xml = A->export_xml();
    if (const char* d = getenv("SX_DUMP_GKF")) { static int n = 0; std::ofstream f(std::string(d) + ".export" + std::to_string(++n) + ".gkf"); f << xml; }
    keep.emplace_back(new Net); Net& b = *keep.back();
    if (!b.parse(xml)) { sx::fail(t + ": exported file is rejected by the parser", b.parse_error + " line " + std::to_string(b.parse_line)); return; }
    b.IS->remove_inconsistency();
    std::vector<Observation*> ob = b.all_obs(); sx::check_true(ob.size() == prev.size(), t + ": same number of observations", std::to_string(ob.size())); if (ob.size() != prev.size()) return;
    for (size_t k = 0; k < ob.size(); k++) { Observation* p = prev[k]; Observation* q = ob[k]; std::string l = t + ": observation " + std::to_string(k + 1) + " "; int kd = okind(p);
      sx::check_true(okind(q) == kd && q->from().str() == p->from().str() && q->to().str() == p->to().str(), l + "has the same type and end points", "");
      if (okind(q) != kd) return;
      // angular values pass through gon in the text: two rounded constants whose product differs from 1 by about 1e-16
      if (kd == 0 || kd == 2 || kd == 4 || kd == 6) near0(q->value() - p->value(), degrees ? mpq_class(1, 1000000000L) : mpq_class(1, 1000000000000L), l + "value"); else sx::check_eq(q->value(), p->value(), l + "value");
      if (degrees) near0(q->stdDev() - p->stdDev(), mpq_class(1, 1000000000L), l + "standard deviation"); else sx::check_eq(q->stdDev(), p->stdDev(), l + "standard deviation");
      sx::check_eq(q->from_dh(), p->from_dh(), l + "from_dh");
      sx::check_eq(q->to_dh(), p->to_dh(), l + (kd == 4 ? "bs_dh" : "to_dh"));
      if (kd == 4) { Angle* pa = static_cast<Angle*>(p); Angle* qa = static_cast<Angle*>(q); sx::check_true(qa->fs().str() == pa->fs().str(), l + "fs", ""); sx::check_eq(qa->fs_dh(), pa->fs_dh(), l + "fs_dh"); }
      if (kd == 5) sx::check_eq(static_cast<H_Diff*>(q)->dist(), static_cast<H_Diff*>(p)->dist(), l + "dist"); }
    LocalNetwork* B = b.IS.get();
    for (auto it = A->PD.begin(); it != A->PD.end(); ++it) { const LocalPoint& p = it->second; const LocalPoint& q = B->PD[it->first]; std::string l = t + ": point " + it->first.str() + " ";
      sx::check_true(p.fixed_xy() == q.fixed_xy() && p.free_xy() == q.free_xy() && p.constrained_xy() == q.constrained_xy() && p.fixed_z() == q.fixed_z() && p.free_z() == q.free_z() && p.constrained_z() == q.constrained_z(), l + "status", "");
      sx::check_true(p.test_xy() == q.test_xy() && p.test_z() == q.test_z(), l + "coordinates present", "");
      if (p.test_xy() && q.test_xy()) { sx::check_eq(p.x(), q.x(), l + "x"); sx::check_eq(p.y(), q.y(), l + "y"); } if (p.test_z() && q.test_z()) sx::check_eq(p.z(), q.z(), l + "z"); }
    { auto ca = A->OD.clusters.begin(); auto cb = B->OD.clusters.begin(); int k = 0;
      for (; ca != A->OD.clusters.end() && cb != B->OD.clusters.end(); ++ca, ++cb) { k++; const auto& CA = (*ca)->covariance_matrix; const auto& CB = (*cb)->covariance_matrix; std::string l = t + ": cluster " + std::to_string(k) + " ";
        sx::check_true(CA.dim() == CB.dim() && CA.bandWidth() == CB.bandWidth(), l + "covariance matrix dimension and band", std::to_string(CB.dim()) + "/" + std::to_string(CB.bandWidth())); if (CA.dim() != CB.dim() || CA.bandWidth() != CB.bandWidth()) continue;
        for (int i = 1; i <= (int)CA.dim(); i++) for (int j = i; j <= (int)std::min(CA.dim(), i + CA.bandWidth()); j++) { if (degrees) near0(CB(i, j) - CA(i, j), mpq_class(1, 1000000L), l + "covariance " + std::to_string(i) + "," + std::to_string(j)); else sx::check_eq(CB(i, j), CA(i, j), l + "covariance " + std::to_string(i) + "," + std::to_string(j)); } }
      sx::check_true(ca == A->OD.clusters.end() && cb == B->OD.clusters.end(), t + ": same number of clusters", ""); }
    sx::check_true(A->PD.local_coordinate_system == B->PD.local_coordinate_system && A->PD.left_handed_angles() == B->PD.left_handed_angles(), t + ": axes and angle orientation", "");
    sx::check_eq(A->apriori_m_0(), B->apriori_m_0(), t + ": sigma-apr"); sx::check_eq(A->tol_abs(), B->tol_abs(), t + ": tol-abs"); sx::check_eq(A->conf_pr(), B->conf_pr(), t + ": conf-pr"); sx::check_true(A->m_0_apriori() == B->m_0_apriori(), t + ": sigma-act", "");
    A = B; prev = ob; }
  sx::reached("net3d-export");
}

// C12: the adjustment XML of a spatial network (slope distances, zenith angles, height differences, heights) read back by gama's reader
static void same_printed(Real got, Real want, const std::string& label, sx::f64 abs_tol = 0) {
  if (sx::is_const(got) && sx::is_const(want)) { sx::f64 a = sx::numeric(got), b = sx::numeric(want); sx::f64 sc = ::fabs(b) > 1 ? ::fabs(b) : 1;
    sx::check_true(::fabs(a - b) <= (abs_tol > 0 ? abs_tol : (sx::f64)1e-6 * sc), label + " (to the printed precision)", sx::show(got) + " vs " + sx::show(want)); }
  else sx::check_eq(got, want, label);
}
static void case_xml3d(const Spec3& spec, int alg) {
  // errors small enough for the a priori tests of the writer to have one outcome; the errors of a direction set in increasing order
  std::vector<Real> err; { size_t k = 0; for (auto& st : spec.st) { int last_dir = -1; for (auto& ob : st.obs) { Real e = sx::input("e" + std::to_string(++k)); if (ob.kind == 1) sx::assume_range(e, Q(-1, 100000), Q(1, 100000)); else sx::assume_range(e, Q(-1, 10000000), Q(1, 10000000));
        if (ob.kind == 0) { if (last_dir >= 0) sx::assume_lt(err[last_dir], e); last_dir = (int)err.size(); } err.push_back(e); } }
    for (auto& h : spec.dh) { (void)h; Real e = sx::input("e" + std::to_string(++k)); sx::assume_range(e, Q(-1, 100000), Q(1, 100000)); err.push_back(e); } }
  B3 b; if (!build3d(b, spec, err, ALGS[alg])) return; std::string tag = std::string(ALGS[alg]) + " xml"; LocalNetwork* IS = b.net.IS.get();
  { Real crit = GNU_gama::Normal((sx::rat(1) - IS->conf_pr()) / sx::rat(2)); sx::assume_range(crit, mpq_class(19, 10), mpq_class(2)); }
  R3 r = run3d(b); sx::check_true(r.ok, tag + " adjusted", r.why); if (!r.ok) return;
  std::ostringstream xml; GNU_gama::LocalNetworkXML writer(IS); writer.write(xml);
  if (const char* d = getenv("SX_DUMP_GKF")) { static int n = 0; std::ofstream f(std::string(d) + ".result" + std::to_string(++n) + ".xml"); f << xml.str(); }
  GNU_gama::LocalNetworkAdjustmentResults res;
  try { std::istringstream in(xml.str()); res.read_xml(in); }
  catch (const GNU_gama::Exception::parser& e) { sx::fail(tag + " the written XML is rejected by the result reader", std::string(e.what()) + " line " + std::to_string(e.line)); return; }
  catch (...) { sx::fail(tag + " the written XML is rejected by the result reader", "exception"); return; }
  const GNU_gama::local::Vec& x = IS->solve(); Real R2Gc = Real((sx::f64)(200.0 / M_PI));
  sx::check_true(res.project_equations.equations == r.m && res.project_equations.unknowns == r.n && res.project_equations.degrees_of_freedom == r.dof && res.project_equations.defect == r.defect, tag + " counts read back", "");
  same_printed(res.project_equations.sum_of_squares, r.vpv, tag + " sum of squares read back");
  int nadj = 0, nfix = 0; for (auto& p : spec.pts) { if (p.status.find("adj") != std::string::npos) nadj++; else nfix++; }
  sx::check_true((int)res.adjusted_points.size() == nadj && (int)res.fixed_points.size() == nfix, tag + " numbers of adjusted and fixed points", std::to_string(res.adjusted_points.size()) + "/" + std::to_string(res.fixed_points.size()));
  for (auto& p : res.fixed_points) { const LocalPoint& lp = IS->PD[PointID(p.id)]; sx::check_true(p.hxy && p.hz && lp.fixed_xy() && lp.fixed_z(), tag + " fixed point " + p.id + " has x, y, z", ""); if (!(p.hxy && p.hz)) continue;
    same_printed(p.x, lp.x(), tag + " fixed x of " + p.id, (sx::f64)1e-8); same_printed(p.y, lp.y(), tag + " fixed y of " + p.id, (sx::f64)1e-8); same_printed(p.z, lp.z(), tag + " fixed z of " + p.id, (sx::f64)1e-8); }
  for (auto& p : res.adjusted_points) { const LocalPoint& lp = IS->PD[PointID(p.id)]; sx::check_true(p.hxy && p.hz && lp.free_xy() && lp.free_z(), tag + " adjusted point " + p.id + " has x, y, z", ""); if (!(p.hxy && p.hz && lp.free_xy() && lp.free_z())) continue;
    same_printed(p.x, lp.x() + x(lp.index_x()) / sx::rat(1000), tag + " adjusted x of " + p.id + " read back", (sx::f64)1e-8); same_printed(p.y, lp.y() + x(lp.index_y()) / sx::rat(1000), tag + " adjusted y of " + p.id + " read back", (sx::f64)1e-8);
    same_printed(p.z, lp.z() + x(lp.index_z()) / sx::rat(1000), tag + " adjusted z of " + p.id + " read back", (sx::f64)1e-8);
    sx::check_true(p.indx == lp.index_x() && p.indy == lp.index_y() && p.indz == lp.index_z(), tag + " indexes of " + p.id, std::to_string(p.indx) + " " + std::to_string(p.indy) + " " + std::to_string(p.indz)); }
  for (auto& p : res.approximate_points) { const LocalPoint& lp = IS->PD[PointID(p.id)]; if (p.hz) same_printed(p.z, lp.z(), tag + " approximate z of " + p.id, (sx::f64)1e-8); if (p.hxy) { same_printed(p.x, lp.x(), tag + " approximate x of " + p.id, (sx::f64)1e-8); same_printed(p.y, lp.y(), tag + " approximate y of " + p.id, (sx::f64)1e-8); } }
  sx::check_true((int)res.obslist.size() == r.m, tag + " observation list length", "");
  if ((int)res.obslist.size() == r.m) for (int i = 1; i <= r.m; i++) { auto& ob = res.obslist[i - 1]; Observation* real = IS->ptr_obs(i); std::string n = std::to_string(i);
    sx::check_true(ob.from == real->from().str() && ob.to == real->to().str(), tag + " observation " + n + " end points", ob.from + " " + ob.to);
    Real m0 = IS->m_0();
    if (dynamic_cast<S_Distance*>(real)) { sx::check_true(ob.xml_tag == "slope-distance", tag + " observation " + n + " is a slope distance", ob.xml_tag);
      same_printed(ob.obs, real->value(), tag + " observed slope distance " + n, (sx::f64)1e-8); same_printed(ob.adj, real->value() + r.r[i - 1] / sx::rat(1000), tag + " adjusted slope distance " + n, (sx::f64)1e-8); same_printed(ob.stdev, IS->stdev_obs(i), tag + " stdev of adjusted slope distance " + n); }
    else if (dynamic_cast<Z_Angle*>(real)) { sx::check_true(ob.xml_tag == "zenith-angle", tag + " observation " + n + " is a zenith angle", ob.xml_tag);
      Real m = R2Gc * real->value(); same_printed(ob.obs, m, tag + " observed zenith angle " + n, (sx::f64)1e-8); same_printed(ob.adj, m + r.r[i - 1] / sx::rat(10000), tag + " adjusted zenith angle " + n, (sx::f64)1e-8); same_printed(ob.stdev, IS->stdev_obs(i), tag + " stdev of adjusted zenith angle " + n); }
    else if (dynamic_cast<Direction*>(real)) { sx::check_true(ob.xml_tag == "direction", tag + " observation " + n + " is a direction", ob.xml_tag);
      Real m = R2Gc * real->value(); same_printed(ob.obs, m, tag + " observed direction " + n, (sx::f64)1e-8); Real a = m + r.r[i - 1] / sx::rat(10000); if (a < sx::rat(0)) a = a + sx::rat(400); if (a >= sx::rat(400)) a = a - sx::rat(400); same_printed(ob.adj, a, tag + " adjusted direction " + n, (sx::f64)1e-8); }
    else if (dynamic_cast<H_Diff*>(real)) { sx::check_true(ob.xml_tag == "height-diff", tag + " observation " + n + " is a height difference", ob.xml_tag);
      same_printed(ob.obs, real->value(), tag + " observed height difference " + n, (sx::f64)1e-8); same_printed(ob.adj, real->value() + r.r[i - 1] / sx::rat(1000), tag + " adjusted height difference " + n, (sx::f64)1e-8); same_printed(ob.stdev, IS->stdev_obs(i), tag + " stdev of adjusted height difference " + n); }
    (void)m0; same_printed(ob.qrr, IS->wcoef_res(i), tag + " qrr " + n, (sx::f64)6e-4); }
  sx::reached("net3d-xml");
}

static Spec3 polar(const std::string& name, bool heights, bool second_station, bool second_without_ih = false, bool tall = false) {
  Spec3 s; s.name = name; Q X0 = 1000, Y0 = 2000, Z0 = 300;
  s.pts.push_back({"S", X0, Y0, Z0, "fix=\"xyz\"", true});
  Q off[5][3] = {{90, 120, 200}, {120, -160, 150}, {-30, 40, 120}, {-120, -90, 200}, {160, 120, -150}};
  // T4 is a second fixed point: it fixes the orientation of the direction sets (one fixed point alone leaves the rotation free)
  for (int i = 0; i < 4; i++) s.pts.push_back({"T" + std::to_string(i + 1), X0 + off[i][0], Y0 + off[i][1], Z0 + off[i][2], i == 3 ? "fix=\"xyz\"" : "adj=\"xyz\"", true});
  St3 st; st.from = 0; st.zero = Q(7, 10); st.ih = heights ? Q(3, 2) : Q(0);
  if (tall) st.ih = Q(1);                                                   // a low instrument and long prism poles: more than 1 m apart
  for (int i = 1; i <= 4; i++) { Q th = heights ? Q(10 + i, 10) : Q(0); if (tall) th = Q(9 + i, 4); st.obs.push_back({0, i, Q(10), Q(0)}); st.obs.push_back({1, i, Q(5), th}); st.obs.push_back({2, i, Q(12), th}); }
  s.st.push_back(st);
  if (second_station) { St3 t2; t2.from = 0; t2.zero = Q(31, 10); t2.ih = (heights && !second_without_ih) ? Q(8, 5) : Q(0);      // (second_without_ih: the second set carries no from_dh attribute)           // the same station set up again: another circle zero and instrument height
    for (int i = 1; i <= 4; i++) { Q th = heights ? Q(20 - i, 10) : Q(0); t2.obs.push_back({0, i, Q(15), Q(0)}); t2.obs.push_back({1, i, Q(4), th}); t2.obs.push_back({2, i, Q(10), th}); } s.st.push_back(t2); }
  s.dh.push_back({1, 2, Q(3)}); s.dh.push_back({2, 3, Q(2)}); s.dh.push_back({3, 4, Q(3)}); s.dh.push_back({4, 1, Q(2)});
  return s;
}

// nearly horizontal sights on which the instrument / target heights change the sign of the height difference: marks ascending but the
// line of sight descending (T1), marks descending but the line of sight ascending (T2); T3 an ordinary sight, T4 fixed
static Spec3 flat_sights() {
  Spec3 s = polar("polar-flat-sights", true, false); Q Z0 = 300;
  Q dz[4] = {Q(1, 2), Q(-1, 2), Q(20), Q(-3)}, th[4] = {Q(1, 5), Q(5, 2), Q(13, 10), Q(3, 2)};
  for (int i = 0; i < 4; i++) s.pts[i + 1].z = Z0 + dz[i];
  s.st[0].ih = Q(8, 5);
  for (auto& ob : s.st[0].obs) if (ob.kind != 0) ob.th = th[ob.to - 1];
  return s;
}
// a free station whose coordinates (height included) are left to Acord2, tied to three fixed points and surveying two new points whose
// coordinates are omitted as well: the height of the station has to be derived first (from zenith angles and distances to the fixed
// points), the heights of the new points from it
static Spec3 free_station(const std::string& name, bool give_station_xy) {
  Spec3 s; s.name = name; Q X0 = 1000, Y0 = 2000, Z0 = 300;
  s.pts.push_back({"P", X0, Y0, Z0, "adj=\"xyz\"", false});
  Q off[5][3] = {{90, 120, 200}, {120, -160, 150}, {-120, -90, 200}, {-30, 40, 120}, {160, 120, -150}};
  const char* id[5] = {"A", "B", "C", "T1", "T2"};
  for (int i = 0; i < 5; i++) s.pts.push_back({id[i], X0 + off[i][0], Y0 + off[i][1], Z0 + off[i][2], i < 3 ? "fix=\"xyz\"" : "adj=\"xyz\"", i < 3});
  (void)give_station_xy;
  St3 st; st.from = 0; st.zero = Q(11, 10); st.ih = Q(0);
  for (int i = 1; i <= 5; i++) { st.obs.push_back({0, i, Q(10), Q(0)}); st.obs.push_back({1, i, Q(5), Q(0)}); st.obs.push_back({2, i, Q(12), Q(0)}); }
  s.st.push_back(st);
  return s;
}

// a spatial traverse between two fixed points, oriented at both ends, with a different instrument height at every station and a
// different target height on every sight (one prism pole 2 m, one mini prism 0.1 m); the coordinates of the traverse points are omitted
static Spec3 traverse3d(const std::string& name, bool heights) {
  Spec3 s; s.name = name;
  s.pts = {{"S", 1000, 2000, 300, "fix=\"xyz\"", true}, {"Z", 700, 2300, 310, "fix=\"xyz\"", true}, {"P1", 1120, 2160, 330, "adj=\"xyz\"", false}, {"P2", 1300, 2080, 290, "adj=\"xyz\"", false},
           {"E", 1580, 2176, 320, "fix=\"xyz\"", true}, {"Z2", 1800, 1900, 305, "fix=\"xyz\"", true}};
  auto H = [&](int n, int d) { return heights ? Q(n, d) : Q(0); };
  auto sight = [&](St3& st, int to, Q th) { st.obs.push_back({0, to, Q(10), Q(0)}); st.obs.push_back({1, to, Q(5), th}); st.obs.push_back({2, to, Q(12), th}); };
  { St3 st; st.from = 0; st.zero = Q(9, 10); st.ih = H(3, 2); st.obs.push_back({0, 1, Q(10), Q(0)}); sight(st, 2, H(13, 10)); s.st.push_back(st); }
  { St3 st; st.from = 2; st.zero = Q(52, 10); st.ih = H(8, 5); sight(st, 0, H(7, 5)); sight(st, 3, H(2, 1)); s.st.push_back(st); }
  { St3 st; st.from = 3; st.zero = Q(27, 10); st.ih = H(29, 20); sight(st, 2, H(17, 10)); sight(st, 4, H(1, 10)); s.st.push_back(st); }
  { St3 st; st.from = 4; st.zero = Q(38, 10); st.ih = H(31, 20); st.obs.push_back({0, 3, Q(10), Q(0)}); st.obs.push_back({0, 5, Q(10), Q(0)}); s.st.push_back(st); }
  return s;
}


// C06 on inputs given as text (observation types the spec structures above do not carry): error-free observations printed with 8-10
// decimals; every observation takes part, nothing is removed, adjusted = generating coordinates to 1e-5 m
struct Truth { const char* id; double x, y, z; bool has_xy, has_z; };
static void case_consistent_text(const std::string& name, const std::string& text, const std::vector<Truth>& truth, int alg, bool all_obs = true, bool iterate = false) {
  B3 b; std::string tag = std::string(ALGS[alg]) + " " + name;
  if (!b.net.parse(text)) { sx::fail(tag + ": input rejected by the parser", b.net.parse_error + " line " + std::to_string(b.net.parse_line)); return; }
  b.obs = b.net.all_obs(); b.net.prepare(ALGS[alg], true); LocalNetwork* IS = b.net.IS.get();
  for (auto& t : truth) { const LocalPoint& lp = IS->PD[PointID(t.id)]; sx::check_true((!t.has_xy || lp.test_xy()) && (!t.has_z || lp.test_z()), tag + ": point " + t.id + " has approximate coordinates", ""); }
  bool huge = IS->huge_abs_terms(); sx::check_true(!huge, tag + ": no observation has an outlying absolute term (none is removed)", "");
  if (huge) { sx::reached("net3d-consistent"); return; }
  R3 r = run3d(b); sx::check_true(r.ok, tag + ": adjusted", r.why); if (!r.ok) return;
  if (iterate) {     // gama-local's main() goes on linearising while the program's own test (TestLinearization) asks for it.  The second
    // linearisation cannot be followed exactly (its constants are quotients of radicals the solver does not decide), so what is checked is
    // the decision itself: while the adjusted coordinates are still more than 0.01 mm from the generating ones, the test must ask for more
    bool asks = GNU_gama::local::TestLinearization(IS); bool off = false;
    for (auto& t : truth) { const LocalPoint& lp = IS->PD[PointID(t.id)]; if (!lp.active() || !t.has_xy || !lp.free_xy() || !lp.index_x()) continue;
      double ex = sx::numeric0(lp.x() + r.xv[lp.index_x() - 1] / sx::rat(1000) - Real(t.x)), ey = sx::numeric0(lp.y() + r.xv[lp.index_y() - 1] / sx::rat(1000) - Real(t.y)); if (ex * ex + ey * ey > (sx::f64)1e-10) off = true; }
    sx::check_true(asks || !off, tag + ": the linearisation test asks for another iteration while the adjusted coordinates are off", asks ? "" : "adjusted coordinates more than 0.01 mm off, no iteration requested");
    if (asks) { sx::reached("net3d-consistent"); return; } }
  if (all_obs) sx::check_true(r.m == (int)b.obs.size(), tag + ": every observation takes part", std::to_string(r.m) + " of " + std::to_string(b.obs.size()));
  sx::check_true(IS->removed_points.empty(), tag + ": no point removed", "");
  for (auto& t : truth) { const LocalPoint& lp = IS->PD[PointID(t.id)]; if (!lp.active()) continue;
    sx::check_true((!t.has_xy || (lp.free_xy() && lp.index_x())) && (!t.has_z || (lp.free_z() && lp.index_z())), tag + ": point " + t.id + " is adjusted", "");
    if (t.has_xy && lp.free_xy() && lp.index_x()) { near0(lp.x() + r.xv[lp.index_x() - 1] / sx::rat(1000) - Real(t.x), mpq_class(1, 100000), tag + ": adjusted x of " + t.id); near0(lp.y() + r.xv[lp.index_y() - 1] / sx::rat(1000) - Real(t.y), mpq_class(1, 100000), tag + ": adjusted y of " + t.id); }
    if (t.has_z && lp.free_z() && lp.index_z()) near0(lp.z() + r.xv[lp.index_z() - 1] / sx::rat(1000) - Real(t.z), mpq_class(1, 100000), tag + ": adjusted z of " + t.id); }
  sx::reached("net3d-consistent");
}
static const char* TEXT_TWO_AZIMUTHS =
    "<?xml version=\"1.0\"?>\n"
    "<gama-local>\n"
    "<network axes-xy=\"ne\" angles=\"left-handed\">\n"
    "<parameters sigma-apr=\"10\" conf-pr=\"0.95\" tol-abs=\"1000\" sigma-act=\"apriori\"/>\n"
    "<points-observations>\n"
    "<point id=\"A\" x=\"1000.00000000\" y=\"1000.00000000\" fix=\"xy\"/>\n"
    "<point id=\"B\" x=\"1300.00000000\" y=\"1100.00000000\" fix=\"xy\"/>\n"
    "<point id=\"P\" x=\"1100.40000000\" y=\"1249.70000000\" adj=\"xy\"/>\n"
    "<obs from=\"A\">\n"
    "  <azimuth to=\"P\" val=\"75.7762116818\" stdev=\"10\"/>\n"
    "</obs>\n"
    "<obs from=\"B\">\n"
    "  <azimuth to=\"P\" val=\"159.0334470602\" stdev=\"10\"/>\n"
    "</obs>\n"
    "</points-observations>\n"
    "</network>\n"
    "</gama-local>\n";
static const char* TEXT_TRAVERSE_START_SEEN_FROM_ORIENTED_STATION =
    "<?xml version=\"1.0\"?>\n"
    "<gama-local>\n"
    "<network axes-xy=\"ne\" angles=\"left-handed\">\n"
    "<parameters sigma-apr=\"10\" conf-pr=\"0.95\" tol-abs=\"1000\" sigma-act=\"apriori\"/>\n"
    "<points-observations>\n"
    "<point id=\"K\" x=\"1500.00000000\" y=\"800.00000000\" fix=\"xy\"/>\n"
    "<point id=\"A\" x=\"1000.00000000\" y=\"1000.00000000\" fix=\"xy\"/>\n"
    "<point id=\"B\" x=\"1700.00000000\" y=\"1900.00000000\" fix=\"xy\"/>\n"
    "<point id=\"1\" adj=\"xy\"/>\n"
    "<point id=\"2\" adj=\"xy\"/>\n"
    "<point id=\"3\" adj=\"xy\"/>\n"
    "<obs from=\"K\">\n"
    "  <direction to=\"B\" val=\"11.5501705903\" stdev=\"10\"/>\n"
    "  <direction to=\"A\" val=\"98.7762116818\" stdev=\"10\"/>\n"
    "</obs>\n"
    "<obs from=\"A\">\n"
    "  <direction to=\"1\" val=\"45.5958260755\" stdev=\"10\"/>\n"
    "  <distance to=\"1\" val=\"291.54759474\" stdev=\"5\"/>\n"
    "</obs>\n"
    "<obs from=\"1\">\n"
    "  <direction to=\"A\" val=\"145.5958260755\" stdev=\"10\"/>\n"
    "  <direction to=\"2\" val=\"330.0000000000\" stdev=\"10\"/>\n"
    "  <distance to=\"A\" val=\"291.54759474\" stdev=\"5\"/>\n"
    "  <distance to=\"2\" val=\"212.13203436\" stdev=\"5\"/>\n"
    "</obs>\n"
    "<obs from=\"2\">\n"
    "  <direction to=\"1\" val=\"30.0000000000\" stdev=\"10\"/>\n"
    "  <direction to=\"3\" val=\"250.4832764699\" stdev=\"10\"/>\n"
    "  <distance to=\"1\" val=\"212.13203436\" stdev=\"5\"/>\n"
    "  <distance to=\"3\" val=\"335.41019662\" stdev=\"5\"/>\n"
    "</obs>\n"
    "<obs from=\"3\">\n"
    "  <direction to=\"2\" val=\"350.4832764699\" stdev=\"10\"/>\n"
    "  <direction to=\"B\" val=\"122.9553425045\" stdev=\"10\"/>\n"
    "  <distance to=\"2\" val=\"335.41019662\" stdev=\"5\"/>\n"
    "  <distance to=\"B\" val=\"320.15621187\" stdev=\"5\"/>\n"
    "</obs>\n"
    "<obs from=\"B\">\n"
    "  <direction to=\"3\" val=\"237.9553425045\" stdev=\"10\"/>\n"
    "  <distance to=\"3\" val=\"320.15621187\" stdev=\"5\"/>\n"
    "</obs>\n"
    "</points-observations>\n"
    "</network>\n"
    "</gama-local>\n";
static const char* TEXT_VECTOR_BETWEEN_POLAR_POINTS =
    "<?xml version=\"1.0\"?>\n"
    "<gama-local>\n"
    "<network axes-xy=\"ne\" angles=\"left-handed\">\n"
    "<parameters sigma-apr=\"10\" conf-pr=\"0.95\" tol-abs=\"1000\" sigma-act=\"apriori\"/>\n"
    "<points-observations>\n"
    "<point id=\"A\" x=\"1000.00000000\" y=\"1000.00000000\" z=\"100.00000000\" fix=\"xyz\"/>\n"
    "<point id=\"B\" x=\"1300.00000000\" y=\"1100.00000000\" z=\"105.00000000\" fix=\"xyz\"/>\n"
    "<point id=\"P\" adj=\"xyz\"/>\n"
    "<point id=\"Q\" adj=\"xyz\"/>\n"
    "<obs from=\"A\">\n"
    "  <direction to=\"B\" val=\"387.4832764699\" stdev=\"10\"/>\n"
    "  <direction to=\"P\" val=\"42.7762116818\" stdev=\"10\"/>\n"
    "  <distance to=\"P\" val=\"269.25824036\" stdev=\"5\"/>\n"
    "  <direction to=\"Q\" val=\"31.4384631021\" stdev=\"10\"/>\n"
    "  <distance to=\"Q\" val=\"471.69905660\" stdev=\"5\"/>\n"
    "</obs>\n"
    "<obs from=\"B\">\n"
    "  <direction to=\"A\" val=\"87.4832764699\" stdev=\"10\"/>\n"
    "  <direction to=\"P\" val=\"26.0334470602\" stdev=\"10\"/>\n"
    "  <distance to=\"P\" val=\"250.00000000\" stdev=\"5\"/>\n"
    "  <direction to=\"Q\" val=\"377.5136913423\" stdev=\"10\"/>\n"
    "  <distance to=\"Q\" val=\"304.13812651\" stdev=\"5\"/>\n"
    "</obs>\n"
    "<height-differences>\n"
    "  <dh from=\"A\" to=\"P\" val=\"10.00000000\" stdev=\"1\"/>\n"
    "  <dh from=\"B\" to=\"Q\" val=\"15.00000000\" stdev=\"1\"/>\n"
    "</height-differences>\n"
    "<vectors>\n"
    "  <vec from=\"P\" to=\"Q\" dx=\"150.00000000\" dy=\"150.00000000\" dz=\"10.00000000\"/>\n"
    "  <cov-mat dim=\"3\" band=\"0\">\n"
    "   1 1 1\n"
    "  </cov-mat>\n"
    "</vectors>\n"
    "</points-observations>\n"
    "</network>\n"
    "</gama-local>\n";

// a height difference hanging on a point whose own height comes from slope distance and zenith angle (the levelled point is seen by
// directions only): the heights have to be found in two rounds of the strategies
static Spec3 hdiff_on_trig_point() {
  Spec3 s; s.name = "hdiff-on-trig-point";
  s.pts = {{"A", 1000, 1000, 100, "fix=\"xyz\"", true}, {"B", 1300, 1100, 105, "fix=\"xyz\"", true}, {"P", 1100, 1250, 110, "adj=\"xyz\"", false}, {"Q", 1250, 1400, 120, "adj=\"xyz\"", false}};
  { St3 st; st.from = 0; st.zero = Q(17, 10); st.ih = Q(0); st.obs = {{0, 1, Q(10), Q(0)}, {0, 2, Q(10), Q(0)}, {1, 2, Q(5), Q(0)}, {2, 2, Q(10), Q(0)}, {0, 3, Q(10), Q(0)}}; s.st.push_back(st); }
  { St3 st; st.from = 1; st.zero = Q(46, 10); st.ih = Q(0); st.obs = {{0, 0, Q(10), Q(0)}, {0, 2, Q(10), Q(0)}, {1, 2, Q(5), Q(0)}, {2, 2, Q(10), Q(0)}, {0, 3, Q(10), Q(0)}}; s.st.push_back(st); }
  s.dh.push_back({2, 3, Q(1)});
  return s;
}

static void gen_cases(const sx::Options& opt, std::vector<sx::Case>& cases) {
  g_prop = opt.prop; bool th = opt.tier == "thorough";
  auto add = [&](const std::string& n, const std::string& fam, std::function<void()> f) { cases.push_back({n, fam, f}); };
  std::vector<Spec3> specs{polar("polar-plain", false, false), polar("polar-heights", true, false), polar("polar-heights-2sets", true, true), polar("polar-heights-2sets-second-without-ih", true, true, true), polar("polar-heights-tall-poles", true, false, false, true)};
  // (omitted approximate coordinates with instrument heights: since 897d03f / a67f50e Acord2 takes the heights into account and its result is
  //  exact for error-free observations; before, it was 0.1-2 m off, gama-local re-linearised or threw zenith angles away.  Both the weaker
  //  "nothing is removed" form and the full form are kept)
  if (on("C06")) { int k = 0; for (auto& s : specs) for (int omit = 0; omit < 2; omit++) { int alg = (k++) % 3; auto sp = std::make_shared<Spec3>(s); bool so = omit && s.name != "polar-plain";
      add("net3d/consistent/" + s.name + "/" + ALGS[alg] + (omit ? (so ? "/acord-nothing-removed" : "/acord") : "/given"), "spatial networks", [sp, alg, omit, so] { case_consistent(*sp, alg, omit != 0, so); });
      if (so) add("net3d/consistent/" + s.name + "/" + ALGS[alg] + "/acord", "spatial networks", [sp, alg] { case_consistent(*sp, alg, true, false); }); } }
  if (on("C06")) { for (int alg = 0; alg < (th ? 3 : 1); alg++) { auto sp = std::make_shared<Spec3>(free_station("free-station", false)); add(std::string("net3d/consistent/free-station/") + ALGS[alg] + "/acord", "spatial networks", [sp, alg] { case_consistent(*sp, alg, true); }); } }
  if (on("C06")) { int k = 0; for (int h = 0; h < 2; h++) { auto sp = std::make_shared<Spec3>(traverse3d(h ? "traverse-heights" : "traverse-plain", h != 0)); for (int omit = 0; omit < 2; omit++) { if (!th && !omit) continue; int alg = (k++) % 3;
        add("net3d/consistent/" + sp->name + "/" + ALGS[alg] + (omit ? "/acord" : "/given"), "spatial networks", [sp, alg, omit] { Spec3 t = *sp; if (!omit) for (auto& p : t.pts) p.give = true; case_consistent(t, alg, omit != 0); }); } } }
  if (on("C12")) { int k = 0; for (auto& s : specs) { if (s.name != "polar-heights" && s.name != "polar-plain" && !th) continue; int alg = (k++) % 3; auto sp = std::make_shared<Spec3>(s); add("net3d/xml/" + s.name + "/" + ALGS[alg], "spatial networks", [sp, alg] { case_xml3d(*sp, alg); }); } }
  if (on("C06")) { { auto sp = std::make_shared<Spec3>(hdiff_on_trig_point()); add("net3d/consistent/" + sp->name + "/cholesky/acord", "spatial networks", [sp] { case_consistent(*sp, 1, true); }); }
    std::vector<Truth> tr{{"P", 1100, 1250, 110, true, true}, {"Q", 1250, 1400, 120, true, true}};
    add("net3d/consistent/vector-between-polar-points/envelope/acord", "spatial networks", [tr] { case_consistent_text("vector between two points fixed by polar shots and levelling", TEXT_VECTOR_BETWEEN_POLAR_POINTS, tr, 0); }); }
  if (on("C06")) {
    add("net3d/consistent/two-azimuths-perturbed/envelope/given", "spatial networks", [] { case_consistent_text("point intersected by two azimuths, approximate coordinates 0.5 m off", TEXT_TWO_AZIMUTHS, {{"P", 1100, 1250, 0, true, false}}, 0, true, true); });
    add("net3d/consistent/traverse-start-seen-from-oriented-station/cholesky/acord", "spatial networks", [] { case_consistent_text("traverse whose start station is observed from another oriented station", TEXT_TRAVERSE_START_SEEN_FROM_ORIENTED_STATION, {{"1", 1150, 1250, 0, true, false}, {"2", 1300, 1400, 0, true, false}, {"3", 1450, 1700, 0, true, false}}, 1, false, false); }); }
  if (on("C06")) { auto sp = std::make_shared<Spec3>(flat_sights()); add("net3d/consistent/" + sp->name + "/envelope/given", "spatial networks", [sp] { case_consistent(*sp, 0, false); });
    add("net3d/consistent/" + sp->name + "/gso/acord", "spatial networks", [sp] { case_consistent(*sp, 2, true); }); }
  if (on("C13")) { for (int v = 0; v < 2; v++) add(std::string("net3d/export-description/") + (v ? "station-height" : "sight-heights"), "spatial networks", [v] { case_export_description(v != 0); });
    add("net3d/export-description/station-height-covmat", "spatial networks", [] { case_export_description(true, "ne", "left-handed", true); });
    add("net3d/export-description/station-height-degrees", "spatial networks", [] { case_export_description(true, "ne", "left-handed", false, true); });
    add("net3d/export-description/sight-heights-covmat-degrees", "spatial networks", [] { case_export_description(false, "ne", "left-handed", true, true); });
    add("net3d/export-description/sight-heights@en", "spatial networks", [] { case_export_description(false, "en", "left-handed", false); });
    add("net3d/export-description/station-height-covmat@sw-right", "spatial networks", [] { case_export_description(true, "sw", "right-handed", true); });
    if (th) { add("net3d/export-description/sight-heights-covmat@nw", "spatial networks", [] { case_export_description(false, "nw", "left-handed", true); }); add("net3d/export-description/station-height@es-right", "spatial networks", [] { case_export_description(true, "es", "right-handed", false); }); } }
  if (on("C01") || on("C02")) for (auto& s : specs) { if (!th && s.name == "polar-plain") continue; auto sp = std::make_shared<Spec3>(s); add("net3d/agree/" + s.name, "spatial networks", [sp] { case_agree(*sp); }); }
}
int main(int argc, char** argv) { GNU_gama::local::set_gama_language(GNU_gama::local::en); return sx::run_main(argc, argv, "net3d", gen_cases); }
