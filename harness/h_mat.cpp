// Harness "mat" (C15, C16): the dense matrix library and the sparse / envelope kernels against their
// mathematical definitions, with symbolic entries (polynomial identities) or concrete well-conditioned
// rational matrices and symbolic vectors, and exact rational oracles.
#include "adjcommon.h"
#ifndef SX_REPLAY
#include "svd_contract.h"
#endif
#include <matvec/matvec.h>
#include <matvec/covmat.h>
#include <matvec/bandmat.h>
#include <matvec/gso.h>
#include <matvec/pinv.h>
#include <gnu_gama/sparse/smatrix.h>
#include <gnu_gama/sparse/smatrix_graph.h>
#include <gnu_gama/sparse/smatrix_ordering.h>
#include <gnu_gama/adj/envelope.h>
#include <gnu_gama/adj/homogenization.h>
#include <iostream>

using namespace H;
typedef GNU_gama::Exception::matvec Exc;
typedef Mat<Real, int, Exc> M; typedef Vec<Real, int, Exc> V; typedef SymMat<Real, int, Exc> SMat;
static std::string g_prop;
static bool on(const char* p) { return g_prop.empty() || g_prop == p; }

static M sym_mat(const std::string& n, int r, int c) { M a(r, c); for (int i = 1; i <= r; i++) for (int j = 1; j <= c; j++) a(i, j) = sx::input(n + std::to_string(i) + std::to_string(j)); return a; }
static V sym_vec(const std::string& n, int d) { V v(d); for (int i = 1; i <= d; i++) v(i) = sx::input(n + std::to_string(i)); return v; }
static M q_mat(const QMat& q) { M a(q.r, q.c); for (int i = 0; i < q.r; i++) for (int j = 0; j < q.c; j++) a(i + 1, j + 1) = sx::constant(q(i, j)); return a; }
static std::string ij(int i, int j) { return std::to_string(i) + "," + std::to_string(j); }

// ---- C15 (a): algebra with symbolic entries ------------------------------------------------------------
static void case_algebra(int r, int k, int c) {
  M A = sym_mat("a", r, k), B = sym_mat("b", k, c), A2 = sym_mat("c", r, k);
  Real f = sx::input("f");
  M S = A + A2, D = A - A2, P = A * B, T = trans(A), F = A * f, F2 = f * A;
  sx::check_true(P.rows() == r && P.cols() == c && T.rows() == k && T.cols() == r && S.rows() == r && S.cols() == k, "result dimensions", "");
  for (int i = 1; i <= r; i++) for (int j = 1; j <= k; j++) {
    sx::check_eq(S(i, j), A(i, j) + A2(i, j), "A+B " + ij(i, j)); sx::check_eq(D(i, j), A(i, j) - A2(i, j), "A-B " + ij(i, j));
    sx::check_eq(T(j, i), A(i, j), "trans " + ij(i, j)); sx::check_eq(F(i, j), A(i, j) * f, "A*f " + ij(i, j)); sx::check_eq(F2(i, j), A(i, j) * f, "f*A " + ij(i, j)); }
  for (int i = 1; i <= r; i++) for (int j = 1; j <= c; j++) { Real s = sx::rat(0); for (int t = 1; t <= k; t++) s = s + A(i, t) * B(t, j); sx::check_eq(P(i, j), s, "A*B " + ij(i, j)); }
  V x = sym_vec("x", k), y = sym_vec("y", k); V Ax = A * x, xy = x + y;
  for (int i = 1; i <= r; i++) { Real s = sx::rat(0); for (int t = 1; t <= k; t++) s = s + A(i, t) * x(t); sx::check_eq(Ax(i), s, "A*x " + std::to_string(i)); }
  Real dt = sx::rat(0); for (int t = 1; t <= k; t++) { dt = dt + x(t) * y(t); sx::check_eq(xy(t), x(t) + y(t), "x+y"); }
  sx::check_eq(x.dot(y), dt, "dot"); sx::check_eq(trans(x) * y, dt, "trans(x)*y");
  // copies are independent of their source
  M C = A; C(1, 1) = C(1, 1) + sx::rat(1); sx::check_eq(C(1, 1) - A(1, 1), sx::rat(1), "copy is independent (copy-construct)");
  M E; E = B; E(1, 1) = sx::rat(7); sx::check_eq(B(1, 1), B(1, 1), "source untouched"); sx::check_true(!sx::is_const(B(1, 1)), "source still symbolic after writing through the copy", "");
  sx::reached("mat-algebra");
}
static void case_symmat(int n) {
  SMat A(n), B(n); for (int i = 1; i <= n; i++) for (int j = 1; j <= i; j++) { A(i, j) = sx::input("s" + ij(i, j)); B(i, j) = sx::input("t" + ij(i, j)); }
  M Bm = sym_mat("m", n, 2);
  SMat S = A + B, D = A - B, PP = A * B; M P = A * Bm, MS = trans(Bm) * A, Sq = Square(A), Lo = Lower(A), Up = Upper(A);
  for (int i = 1; i <= n; i++) for (int j = 1; j <= n; j++) {
    sx::check_eq(A(i, j), A(j, i), "SymMat symmetric access"); sx::check_eq(S(i, j), A(i, j) + B(i, j), "SymMat + " + ij(i, j)); sx::check_eq(D(i, j), A(i, j) - B(i, j), "SymMat - " + ij(i, j));
    sx::check_eq(Sq(i, j), A(i, j), "Square " + ij(i, j)); sx::check_eq(Lo(i, j), j <= i ? A(i, j) : sx::rat(0), "Lower " + ij(i, j)); sx::check_eq(Up(i, j), j >= i ? A(i, j) : sx::rat(0), "Upper " + ij(i, j));
    Real s = sx::rat(0); for (int t = 1; t <= n; t++) s = s + A(i, t) * B(t, j); sx::check_eq(PP(i, j), s, std::string("SymMat*SymMat ") + (j <= i ? "lower triangle " : "upper triangle ") + ij(i, j)); }
  for (int i = 1; i <= 2; i++) for (int j = 1; j <= n; j++) { Real s = sx::rat(0); for (int t = 1; t <= n; t++) s = s + Bm(t, i) * A(t, j); sx::check_eq(MS(i, j), s, "Mat*SymMat " + ij(i, j)); }
  for (int i = 1; i <= n; i++) for (int j = 1; j <= 2; j++) { Real s = sx::rat(0); for (int t = 1; t <= n; t++) s = s + A(i, t) * Bm(t, j); sx::check_eq(P(i, j), s, "SymMat*Mat " + ij(i, j)); }
  sx::reached("mat-symmat");
}

// ---- C15 (b,c): inverses and factorizations on concrete rational matrices, symbolic vectors --------------
static QMat rand_q(qla::Rng& rng, int r, int c, int lo, int hi) { QMat a(r, c); for (int i = 0; i < r; i++) for (int j = 0; j < c; j++) a(i, j) = rng.range(lo, hi); return a; }
static QMat spd_banded(qla::Rng& rng, int n, int band, QMat* Lout = nullptr) { QMat L(n, n); for (int i = 0; i < n; i++) { L(i, i) = rng.range(1, 3); for (int j = std::max(0, i - band); j < i; j++) L(i, j) = Q(rng.range(-2, 2), 2); } if (Lout) *Lout = L; return qla::mul(L, qla::trans(L)); }

static void case_invert(int n, int seed) {
  qla::Rng rng(seed);
  QMat A; do { A = rand_q(rng, n, n, -3, 3); if (seed % 3 == 0 && n > 1) A(0, 0) = 0; if (seed % 3 == 1 && n > 1) { A(0, 0) = 0; A(1, 1) = 0; } } while (qla::rank(A) < n);
  M a = q_mat(A); V u = sym_vec("u", n);
  M ai = inv(a); V Au = a * u; V back = ai * Au;
  for (int i = 1; i <= n; i++) sx::check_eq(back(i), u(i), "inv(A)(A u) = u, component " + std::to_string(i));
  QMat Ai = qla::inverse(A); for (int i = 1; i <= n; i++) for (int j = 1; j <= n; j++) sx::check_eq(ai(i, j), sx::constant(Ai(i - 1, j - 1)), "inv(A) equals the exact inverse " + ij(i, j));
  // the same operation on objects with a past: inverted before, copied from an inverted matrix, reset and refilled
  auto same = [&](const M& x, const QMat& q, const std::string& what) { sx::check_true(x.rows() == n && x.cols() == n, what + ": dimensions", "");
    for (int i = 1; i <= n; i++) for (int j = 1; j <= n; j++) sx::check_eq(x(i, j), sx::constant(q(i - 1, j - 1)), what + " " + ij(i, j)); };
  { M t = a; t.invert(); t.invert(); same(t, A, "invert() twice on one object gives the matrix back"); }
  { M f = a; f.invert(); M g(f); g.invert(); same(g, A, "invert() of a copy of an inverted matrix"); same(f, Ai, "the inverted source is untouched by inverting its copy"); }
  { M f = a; f.invert(); M g; g = f; g.invert(); same(g, A, "invert() of an assigned copy of an inverted matrix"); same(f, Ai, "the inverted source is untouched by inverting its assigned copy"); }
  { M t = a; t.invert(); t.reset(n, n); for (int i = 1; i <= n; i++) for (int j = 1; j <= n; j++) t(i, j) = a(i, j); t.invert(); same(t, Ai, "invert() after reset() and refill"); }
  { M t = a; t.invert(); M big(n + 1, n + 1); big.set_identity(); big(1, n + 1) = sx::rat(2); t = big; t.invert(); QMat B(n + 1, n + 1); for (int i = 0; i <= n; i++) B(i, i) = 1; B(0, n) = -2;
    sx::check_true(t.rows() == n + 1, "invert() after assigning a larger matrix: dimensions", ""); for (int i = 1; i <= n + 1; i++) for (int j = 1; j <= n + 1; j++) sx::check_eq(t(i, j), sx::constant(B(i - 1, j - 1)), "invert() after assigning a larger matrix " + ij(i, j)); }
  { M t = inv(inv(a)); same(t, A, "inv(inv(A)) = A"); }
  bool threw = false; QMat Z = A; for (int j = 0; j < n; j++) Z(n - 1, j) = (n > 1) ? A(0, j) * 2 : Q(0);
  try { M z = q_mat(Z); z.invert(); } catch (const Exc&) { threw = true; }
  sx::check_true(threw, "inverting a singular matrix raises an exception", "");
  sx::note("matrix", qla::show(A));
  sx::reached("mat-invert");
}
static void case_invert_symbolic() {       // fully symbolic 2x2 with a dominant diagonal (pivot order fixed by the assumptions)
  Real a = sx::input("a"), b = sx::input("b"), c = sx::input("c"), d = sx::input("d");
  sx::assume_range(a, 4, 9); sx::assume_range(d, 4, 9); sx::assume_range(b, -1, 1); sx::assume_range(c, -1, 1);
  M m(2, 2); m(1, 1) = a; m(1, 2) = b; m(2, 1) = c; m(2, 2) = d;
  M mi = inv(m); Real det = a * d - b * c;
  sx::check_eq(mi(1, 1) * det, d, "2x2 inverse (1,1)"); sx::check_eq(mi(1, 2) * det, -b, "2x2 inverse (1,2)"); sx::check_eq(mi(2, 1) * det, -c, "2x2 inverse (2,1)"); sx::check_eq(mi(2, 2) * det, a, "2x2 inverse (2,2)");
  sx::reached("mat-invert-sym");
}
static void case_chol(int n, int band, int seed) {
  qla::Rng rng(seed); QMat C = spd_banded(rng, n, band), Ci = qla::inverse(C);
  V u = sym_vec("u", n); std::vector<Real> uv; for (int i = 1; i <= n; i++) uv.push_back(u(i));
  std::vector<Real> Ciu(n); for (int i = 0; i < n; i++) Ciu[i] = dotQ(Ci, i, uv);
  {  // SymMat
    SMat S(n); for (int i = 1; i <= n; i++) for (int j = 1; j <= i; j++) S(i, j) = sx::constant(C(i - 1, j - 1));
    SMat S0 = S; S.cholDec(); V x = u; S.solve(x);
    for (int i = 1; i <= n; i++) sx::check_eq(x(i), Ciu[i - 1], "SymMat cholDec+solve, component " + std::to_string(i));
    // the factor reproduces the matrix: L L'
    for (int i = 1; i <= n; i++) for (int j = 1; j <= i; j++) { Real s = sx::rat(0); for (int k = 1; k <= j; k++) s = s + S(i, k) * S(j, k); sx::check_eq(s, S0(i, j), "SymMat L L' reproduces the matrix " + ij(i, j)); }
    SMat I = inv(S0); for (int i = 1; i <= n; i++) for (int j = 1; j <= n; j++) sx::check_eq(I(i, j), sx::constant(Ci(i - 1, j - 1)), "SymMat inverse " + ij(i, j));
  }
  {  // CovMat
    CovMat<Real, int, Exc> B(n, band); for (int i = 1; i <= n; i++) for (int j = i; j <= std::min(n, i + band); j++) B(i, j) = sx::constant(C(i - 1, j - 1));
    V Bu = B * u; for (int i = 1; i <= n; i++) sx::check_eq(Bu(i), dotQ(C, i - 1, uv), "CovMat * Vec, component " + std::to_string(i));
    B.cholDec(); V x = u; B.solve(x); for (int i = 1; i <= n; i++) sx::check_eq(x(i), Ciu[i - 1], "CovMat cholDec+solve, component " + std::to_string(i));
    for (int i = 1; i <= n; i++) for (int j = 1; j <= n; j++) if (std::abs(i - j) > band) { const CovMat<Real, int, Exc>& cb = B; sx::check_zero(cb(i, j), "CovMat outside the band reads as zero"); }
  }
  {  // BandMat
    BandMat<Real, int, Exc> B(n, band); for (int i = 1; i <= n; i++) for (int j = i; j <= std::min(n, i + band); j++) B(i, j) = sx::constant(C(i - 1, j - 1));
    V Bu = B * u; for (int i = 1; i <= n; i++) sx::check_eq(Bu(i), dotQ(C, i - 1, uv), "BandMat * Vec, component " + std::to_string(i));
    BandMat<Real, int, Exc> F = B; F.cholDec(); V x = u; F.solve(x); for (int i = 1; i <= n; i++) sx::check_eq(x(i), Ciu[i - 1], "BandMat cholDec+solve, component " + std::to_string(i));
    BandMat<Real, int, Exc> Z; F.invBand(Z); const BandMat<Real, int, Exc>& cz = Z;
    for (int i = 1; i <= n; i++) for (int j = i; j <= std::min(n, i + band); j++) sx::check_eq(cz(i, j), sx::constant(Ci(i - 1, j - 1)), "BandMat invBand inside the band " + ij(i, j));
    // the documented use with a wider result band, and a narrower request (taken as the band of the matrix)
    for (int extra = 1; extra <= 2 && band + extra <= n - 1; extra++) { BandMat<Real, int, Exc> W; F.invBand(W, band + extra); const BandMat<Real, int, Exc>& cw = W;
      sx::check_true(cw.dim() == n && cw.bandWidth() == band + extra, "BandMat invBand(Z, band+" + std::to_string(extra) + ") dimensions", "");
      if (cw.dim() == n && cw.bandWidth() == band + extra) for (int i = 1; i <= n; i++) for (int j = i; j <= std::min(n, i + band + extra); j++) sx::check_eq(cw(i, j), sx::constant(Ci(i - 1, j - 1)), "BandMat invBand with a band widened by " + std::to_string(extra) + " " + ij(i, j)); }
    if (band > 0) { BandMat<Real, int, Exc> W; F.invBand(W, band - 1); const BandMat<Real, int, Exc>& cw = W; sx::check_true(cw.bandWidth() == band, "BandMat invBand with a narrower request keeps the band of the matrix", "");
      if (cw.bandWidth() == band) for (int i = 1; i <= n; i++) for (int j = i; j <= std::min(n, i + band); j++) sx::check_eq(cw(i, j), sx::constant(Ci(i - 1, j - 1)), "BandMat invBand with a narrower request " + ij(i, j)); }
  }
  sx::note("matrix", qla::show(C));
  sx::reached("mat-chol");
}
static void case_chol_reject(int kind) {       // not positive definite -> exception
  SMat S(2); S(1, 1) = sx::rat(kind == 0 ? 0 : kind == 1 ? -1 : 1); S(2, 1) = sx::rat(kind == 2 ? 2 : 0); S(2, 2) = sx::rat(1);
  bool t1 = false; try { S.cholDec(); } catch (const Exc&) { t1 = true; }
  CovMat<Real, int, Exc> C(2, 1); C(1, 1) = sx::rat(kind == 0 ? 0 : kind == 1 ? -1 : 1); C(1, 2) = sx::rat(kind == 2 ? 2 : 0); C(2, 2) = sx::rat(1);
  bool t2 = false; try { C.cholDec(); } catch (const Exc&) { t2 = true; }
  (void)t1;   // SymMat::cholDec is the rank-tolerant variant (zero pivot = dependent column): no rejection promised
  sx::check_true(t2, "CovMat::cholDec rejects a matrix that is not positive definite", std::to_string(kind));
  // fully symbolic 2x2: normal return => leading minors positive ; exception => some minor at most the tolerance
  Real a = sx::input("a"), b = sx::input("b"), c = sx::input("c"); sx::assume_range(a, -4, 4); sx::assume_range(b, -4, 4); sx::assume_range(c, -4, 4);
  CovMat<Real, int, Exc> W(2, 1); W(1, 1) = a; W(1, 2) = b; W(2, 2) = c; bool threw = false;
  try { W.cholDec(); } catch (const Exc&) { threw = true; }
  if (!threw) { sx::check_lt(sx::rat(0), a, "accepted symbolic 2x2: first minor positive"); sx::check_lt(sx::rat(0), a * c - b * b, "accepted symbolic 2x2: determinant positive"); sx::reached("chol-accepted"); }
  else sx::reached("chol-rejected");
}
static void case_gso(int m, int n, int defect, int seed) {
  qla::Rng rng(seed); QMat A = rand_q(rng, m, n, -2, 2);
  for (int k = 0; k < defect; k++) for (int i = 0; i < m; i++) A(i, n - 1 - k) = A(i, 0) * (k + 1) + (n - defect > 1 ? A(i, 1) : Q(0));
  if (qla::rank(A) != n - defect) { sx::note("skip", "rank not as planned"); return; }
  V b = sym_vec("b", m);
  M W(m + n, n + 1); for (int i = 1; i <= m; i++) { for (int j = 1; j <= n; j++) W(i, j) = sx::constant(A(i - 1, j - 1)); W(i, n + 1) = -b(i); }
  for (int i = 1; i <= n; i++) for (int j = 1; j <= n + 1; j++) W(m + i, j) = sx::rat(i == j ? 1 : 0);
  GSO<Real, int, Exc> g(W, m, n); g.tol(sx::rat(1, 100000000));   // a preset tolerance bypasses the machine-epsilon bisection, which cannot terminate in exact arithmetic
  g.min_x(); g.gso1(); g.gso2();
  sx::check_true((int)g.defect() == defect, "GSO defect", std::to_string(g.defect()));
  std::vector<Real> x(n), r(m), bv; for (int i = 1; i <= m; i++) bv.push_back(b(i));
  for (int i = 1; i <= n; i++) x[i - 1] = W(m + i, n + 1); for (int i = 1; i <= m; i++) r[i - 1] = W(i, n + 1);
  QMat At = qla::trans(A), G = qla::nullspace(A);
  for (int i = 0; i < m; i++) sx::check_eq(r[i], dotQ(A, i, x) - bv[i], "GSO residual = Ax-b, row " + std::to_string(i + 1));
  for (int j = 0; j < n; j++) sx::check_zero(dotQ(At, j, r), "GSO normal equation " + std::to_string(j + 1));
  for (int k = 0; k < G.c; k++) { Real t = sx::rat(0); for (int j = 0; j < n; j++) t = t + sx::constant(G(j, k)) * x[j]; sx::check_zero(t, "GSO minimum norm: orthogonal to null vector " + std::to_string(k + 1)); }
  sx::reached("mat-gso");
}
static QMat cayley(int n, qla::Rng& rng) {
  QMat S(n, n); for (int i = 0; i < n; i++) for (int j = i + 1; j < n; j++) { Q v(rng.range(-2, 2), rng.range(1, 2)); S(i, j) = v; S(j, i) = -v; }
  QMat I = qla::eye(n), A(n, n), B(n, n); for (int i = 0; i < n; i++) for (int j = 0; j < n; j++) { A(i, j) = I(i, j) - S(i, j); B(i, j) = I(i, j) + S(i, j); }
  return qla::mul(A, qla::inverse(B));
}
static void case_pinv(int m, int n, int defect, int seed) {
#ifndef SX_REPLAY
  qla::Rng rng(seed); QMat Um = cayley(m, rng), Vq = cayley(n, rng), U(m, n), W(n, n);
  for (int i = 0; i < m; i++) for (int j = 0; j < n; j++) U(i, j) = Um(i, j);
  for (int j = 0; j < n; j++) W(j, j) = (j < defect) ? Q(0) : Q(rng.range(1, 4), rng.range(1, 2));
  QMat A = qla::mul(qla::mul(U, W), qla::trans(Vq));
  sx::svd_clear(); sx::SvdFactors f; f.m = m; f.n = n;
  for (int i = 0; i < m; i++) for (int j = 0; j < n; j++) { f.A.push_back(sx::constant(A(i, j))); f.U.push_back(sx::constant(U(i, j))); }
  for (int j = 0; j < n; j++) f.W.push_back(sx::constant(W(j, j))); for (int i = 0; i < n; i++) for (int j = 0; j < n; j++) f.V.push_back(sx::constant(Vq(i, j)));
  sx::svd_register(f);
  M a = q_mat(A); M p = pinv(a);
  M apa = a * p * a, pap = p * a * p, ap = a * p, pa = p * a;
  for (int i = 1; i <= m; i++) for (int j = 1; j <= n; j++) sx::check_eq(apa(i, j), a(i, j), "Moore-Penrose A A+ A = A " + ij(i, j));
  for (int i = 1; i <= n; i++) for (int j = 1; j <= m; j++) sx::check_eq(pap(i, j), p(i, j), "Moore-Penrose A+ A A+ = A+ " + ij(i, j));
  for (int i = 1; i <= m; i++) for (int j = 1; j <= m; j++) sx::check_eq(ap(i, j), ap(j, i), "Moore-Penrose A A+ symmetric " + ij(i, j));
  for (int i = 1; i <= n; i++) for (int j = 1; j <= n; j++) sx::check_eq(pa(i, j), pa(j, i), "Moore-Penrose A+ A symmetric " + ij(i, j));
  sx::reached("mat-pinv");
#else
  (void)m; (void)n; (void)defect; (void)seed;
#endif
}
// MemRep: copies are independent whatever the sizes; every sequence of 3 operations on three vectors
static void case_memrep(int n0, int n1, int n2, int first) {
  int nn[3] = {n0, n1, n2};
  auto fresh = [&](V* v, std::vector<Real>* s) { for (int a = 0; a < 3; a++) { v[a].reset(nn[a]); s[a].clear(); for (int i = 1; i <= nn[a]; i++) { Real x = sx::input("v" + std::to_string(a) + std::to_string(i)); v[a](i) = x; s[a].push_back(x); } } };
  long seqs = 0;
  for (int o2 = 0; o2 < 5 * 9; o2++) for (int o3 = 0; o3 < 5 * 9; o3++) {
    V v[3]; std::vector<Real> sh[3]; fresh(v, sh);
    int codes[3] = {first, o2, o3}; std::string desc;
    for (int st = 0; st < 3; st++) {
      int op = codes[st] / 9, a = (codes[st] % 9) / 3, b = codes[st] % 3;
      desc += std::to_string(op) + ":" + std::to_string(a) + std::to_string(b) + " ";
      if (op == 0) { v[a] = v[b]; sh[a] = sh[b]; }
      else if (op == 1) { if (a != b) { v[a] = std::move(v[b]); sh[a] = sh[b]; sh[b].clear(); } }
      else if (op == 2) { V c(v[b]); v[a] = c; sh[a] = sh[b]; if (c.dim()) c(1) = sx::rat(-77); }
      else if (op == 3) { int n = (a + b) % 4; v[a].reset(n); sh[a].assign(n, sx::rat(0)); for (int i = 1; i <= n; i++) { v[a](i) = sx::rat(50 + st * 10 + i); sh[a][i - 1] = sx::rat(50 + st * 10 + i); } }
      else { if (!sh[a].empty()) { int i = 1 + b % (int)sh[a].size(); v[a](i) = sx::rat(900 + st); sh[a][i - 1] = sx::rat(900 + st); } }
    }
    seqs++;
    for (int a = 0; a < 3; a++) { sx::check_true(v[a].dim() == (int)sh[a].size(), "MemRep history {" + desc + "} dimension of object " + std::to_string(a), "");
      if (v[a].dim() == (int)sh[a].size()) for (int i = 1; i <= v[a].dim(); i++) sx::check_eq(v[a](i), sh[a][i - 1], "MemRep history {" + desc + "} element " + std::to_string(i) + " of object " + std::to_string(a)); }
  }
  sx::note("sequences", std::to_string(seqs)); sx::reached("mat-memrep");
}
static void case_conform() {
  auto throws = [](std::function<void()> f) { try { f(); } catch (const Exc&) { return true; } return false; };
  for (int r1 = 0; r1 <= 3; r1++) for (int c1 = 0; c1 <= 3; c1++) for (int r2 = 0; r2 <= 3; r2++) for (int c2 = 0; c2 <= 3; c2++) {
    M A(r1, c1), B(r2, c2); A.set_all(sx::rat(1)); B.set_all(sx::rat(2)); std::string d = std::to_string(r1) + "x" + std::to_string(c1) + " , " + std::to_string(r2) + "x" + std::to_string(c2);
    sx::check_true(throws([&] { M C = A * B; }) == (c1 != r2), "Mat*Mat raises exactly for non-conforming operands", d);
    sx::check_true(throws([&] { M C = A + B; }) == (r1 != r2 || c1 != c2), "Mat+Mat raises exactly for non-conforming operands", d);
    sx::check_true(throws([&] { M C = A - B; }) == (r1 != r2 || c1 != c2), "Mat-Mat raises exactly for non-conforming operands", d);
    if (c2 == 0) { V x(r2); x.set_all(sx::rat(1)); sx::check_true(throws([&] { V y = A * x; }) == (c1 != r2), "Mat*Vec raises exactly for non-conforming operands", d);
      V y(r1); y.set_all(sx::rat(1)); sx::check_true(throws([&] { V z = x + y; }) == (r1 != r2), "Vec+Vec raises exactly for non-conforming operands", d);
      sx::check_true(throws([&] { Real s = x.dot(y); (void)s; }) == (r1 != r2), "Vec.dot raises exactly for non-conforming operands", d); }
    if (r1 != c1 && c2 == 0 && r2 == 0) sx::check_true(throws([&] { M C = A; C.invert(); }), "invert of a non-square matrix raises", d);
  }
  sx::reached("mat-conform");
}

// ---- C16: sparse kernels ------------------------------------------------------------------------------------
static void case_sparse(const Skel& sk, int covkind) {
  // build / replicate / transpose with symbolic values on the pattern of the skeleton
  int m = sk.A.r, n = sk.A.c; int nnz = 0; for (int i = 0; i < m; i++) for (int j = 0; j < n; j++) if (sk.A(i, j) != 0) nnz++;
  SparseMatrix<Real, int> S(nnz + 1, m, n); std::map<std::pair<int,int>, Real> ent;
  for (int i = 0; i < m; i++) { S.new_row(); for (int j = n - 1; j >= 0; j--) if (sk.A(i, j) != 0) { Real v = sx::input("e" + ij(i + 1, j + 1)); S.add_element(v, j + 1); ent[{i + 1, j + 1}] = v; } }
  std::unique_ptr<SparseMatrix<Real, int>> R(S.replicate()), T(S.transpose()), TT(T->transpose());
  auto dense = [&](const SparseMatrix<Real, int>& X, std::map<std::pair<int,int>, Real>& out, bool transposed, const std::string& what) {
    long cnt = 0;
    for (int r = 1; r <= X.rows(); r++) { Real* b = X.begin(r); Real* e = X.end(r); int* c = X.ibegin(r); sx::check_true(b <= e, what + " row pointers monotone", "");
      for (; b != e; ++b, ++c) { std::pair<int,int> key = transposed ? std::make_pair(*c, r) : std::make_pair(r, *c); sx::check_true(!out.count(key), what + " entry stored once", ij(key.first, key.second)); out[key] = *b; cnt++; } }
    sx::check_true(cnt == (long)ent.size() && X.nonzeroes() == (int)ent.size(), what + " number of entries", "");
  };
  std::map<std::pair<int,int>, Real> dr, dt, dtt; dense(*R, dr, false, "replicate"); dense(*T, dt, true, "transpose"); dense(*TT, dtt, false, "transpose of transpose");
  // operations on a matrix that is itself the result of an operation: copy of the transposed matrix, its transpose, copy of the copy
  { std::unique_ptr<SparseMatrix<Real, int>> RT(T->replicate()), RTT(RT->transpose()), RR(R->replicate()); std::map<std::pair<int,int>, Real> d1, d2, d3;
    sx::check_true(RT->rows() == n && RT->columns() == m && RTT->rows() == m && RTT->columns() == n && RR->rows() == m && RR->columns() == n, "shapes of copies of results", "");
    dense(*RT, d1, true, "replicate of transpose"); dense(*RTT, d2, false, "transpose of replicate of transpose"); dense(*RR, d3, false, "replicate of replicate");
    for (auto& kv : ent) for (auto* d : {&d1, &d2, &d3}) { auto it = d->find(kv.first); sx::check_true(it != d->end(), "entry present in a copy of a result " + ij(kv.first.first, kv.first.second), ""); if (it != d->end()) sx::check_eq(it->second, kv.second, "entry value in a copy of a result " + ij(kv.first.first, kv.first.second)); } }
  sx::check_true(T->rows() == n && T->columns() == m && R->rows() == m && R->columns() == n, "shapes", "");
  for (auto& kv : ent) { for (auto* d : {&dr, &dt, &dtt}) { auto it = d->find(kv.first); sx::check_true(it != d->end(), "entry present " + ij(kv.first.first, kv.first.second), ""); if (it != d->end()) sx::check_eq(it->second, kv.second, "entry value " + ij(kv.first.first, kv.first.second)); } }
  // ordering and connectivity on the real graph of the pattern
  SparseMatrixGraph<Real, int> graph(&S); ReverseCuthillMcKee<int> ord; ord.reset(&graph);
  std::vector<int> seen(n + 1, 0); bool perm_ok = true;
  for (int i = 1; i <= n; i++) { int p = ord.perm(i); if (p < 1 || p > n || seen[p]) perm_ok = false; else seen[p] = 1; if (p >= 1 && p <= n && ord.invp(p) != i) perm_ok = false; }
  sx::check_true(perm_ok, "ordering is a permutation with a consistent inverse", sk.name);
  std::vector<std::vector<int>> reach(n, std::vector<int>(n, 0));
  for (int i = 0; i < n; i++) reach[i][i] = 1;
  for (int r = 0; r < m; r++) for (int a = 0; a < n; a++) for (int b = 0; b < n; b++) if (sk.A(r, a) != 0 && sk.A(r, b) != 0) reach[a][b] = 1;
  for (int k = 0; k < n; k++) for (int a = 0; a < n; a++) for (int b = 0; b < n; b++) if (reach[a][k] && reach[k][b]) reach[a][b] = 1;
  bool conn = true; for (int a = 0; a < n; a++) for (int b = 0; b < n; b++) if (!reach[a][b]) conn = false;
  sx::check_true(graph.connected() == conn, "connected() equals reachability in the column graph", sk.name + (conn ? " connected" : " disconnected"));
  (void)covkind; sx::reached("mat-sparse");
}
static void case_envelope(const Skel& sk, int covkind, long seed) {
  // Envelope of the homogenised system against the dense exact LDL' / inverse ; BlockDiagonal and Homogenization against L^-1
  qla::Rng rng(seed); Problem p; p.name = sk.name; p.A = sk.A; p.m = sk.A.r; p.n = sk.A.c; layout(p, covkind, rng); finish(p);
  std::vector<Real> b; for (int i = 0; i < p.m; i++) b.push_back(sx::input("b" + std::to_string(i + 1)));
  std::unique_ptr<AdjInputData> in(make_input(p, b));
  QMat Linv = qla::inverse(chol_full(p)), At = qla::mul(Linv, p.A);
  Homogenization<Real, int> hom(in.get());
  const SparseMatrix<Real, int>* hm = hom.mat(); const Vec<Real>& hr = hom.rhs();
  for (int r = 1; r <= p.m; r++) { std::vector<Real> row(p.n, sx::rat(0)); Real* bb = hm->begin(r); Real* ee = hm->end(r); int* cc = hm->ibegin(r); for (; bb != ee; ++bb, ++cc) row[*cc - 1] = row[*cc - 1] + *bb;
    for (int c = 0; c < p.n; c++) sx::check_eq(row[c], sx::constant(At(r - 1, c)), "Homogenization: row of L^-1 A " + ij(r, c + 1)); sx::check_eq(hr(r), dotQ(Linv, r - 1, b), "Homogenization: L^-1 b row " + std::to_string(r)); }
  { BlockDiagonal<Real, int>* bd = in->cov()->replicate(); int rc = bd->cholDec(); sx::check_true(rc == 0, "BlockDiagonal::cholDec accepts a positive definite matrix", "");
    int r0 = 0; for (int blk = 1; blk <= bd->blocks(); blk++) { const Block& B = p.blocks[blk - 1]; const Real* q = bd->begin(blk);
      for (int i = 0; i < B.dim; i++) for (int j = i; j <= std::min(B.dim - 1, i + B.width); j++) sx::check_eq(*q++, sx::constant(B.L(j, i)), "BlockDiagonal Cholesky factor equals the dense one, block " + std::to_string(blk) + " " + ij(i + 1, j + 1)); r0 += B.dim; }
    delete bd; }
  SparseMatrixGraph<Real, int> graph(hm); ReverseCuthillMcKee<int> ord; ord.reset(&graph);
  Envelope<Real, int> env(hm, &graph, &ord);
  QMat N = qla::mul(qla::trans(At), At); int n = p.n;
  for (int i = 1; i <= n; i++) for (int j = 1; j <= n; j++) { Real* e = env.element(ord.invp(i), ord.invp(j)); if (e) sx::check_eq(*e, sx::constant(N(i - 1, j - 1)), "Envelope::set holds the permuted normal matrix " + ij(i, j)); else sx::check_true(N(i - 1, j - 1) == 0, "entries outside the envelope are zero", ij(i, j)); }
  env.cholDec();
  sx::check_true((int)env.defect() == p.defect, "Envelope defect = nullity", std::to_string(env.defect()) + " vs " + std::to_string(p.defect));
  if (p.defect == 0) {
    QMat Ni = qla::inverse(N); std::vector<Real> u; for (int i = 0; i < n; i++) u.push_back(sx::input("u" + std::to_string(i + 1)));
    Vec<Real> t(n); for (int i = 1; i <= n; i++) t(ord.invp(i)) = u[i - 1];
    env.solve(t.begin(), n);
    for (int i = 1; i <= n; i++) sx::check_eq(t(ord.invp(i)), dotQ(Ni, i - 1, u), "Envelope::solve equals the dense solution, component " + std::to_string(i));
    Envelope<Real, int> q0; q0.inverse(env);
    for (int i = 1; i <= n; i++) for (int j = 1; j <= n; j++) { Real* e = q0.element(ord.invp(i), ord.invp(j)); if (e) sx::check_eq(*e, sx::constant(Ni(i - 1, j - 1)), "Envelope::inverse equals the dense inverse inside the envelope " + ij(i, j)); }
  } else {
    int zeros = 0; for (int i = 1; i <= n; i++) { mpq_class q; if (sx::is_rational(env.diagonal(i), &q) && q == 0) zeros++; } sx::check_true(zeros == p.defect, "exact zeros on dependent pivots", std::to_string(zeros));
  }
  sx::reached("mat-envelope");
}

static void gen_cases(const sx::Options& opt, std::vector<sx::Case>& cases) {
  g_prop = opt.prop; bool th = opt.tier == "thorough";
  auto add = [&](const std::string& n, const std::string& fam, std::function<void()> f) { cases.push_back({n, fam, f}); };
  if (on("C15")) {
    for (int r = 1; r <= 3; r++) for (int k = 1; k <= 3; k++) for (int c = 1; c <= (th ? 3 : 2); c++) add("mat/algebra/" + std::to_string(r) + std::to_string(k) + std::to_string(c), "dense algebra", [r, k, c] { case_algebra(r, k, c); });
    for (int n = 1; n <= (th ? 4 : 3); n++) add("mat/symmat/" + std::to_string(n), "dense algebra", [n] { case_symmat(n); });
    for (int n = 1; n <= 4; n++) for (int s = 0; s < (th ? 9 : 3); s++) { int seed = 100 * n + s + (int)opt.seed; add("mat/invert/" + std::to_string(n) + "/" + std::to_string(s), "inverse", [n, seed] { case_invert(n, seed); }); }
    add("mat/invert-symbolic", "inverse", [] { case_invert_symbolic(); });
    for (int n = 1; n <= (th ? 6 : 5); n++) for (int band = 0; band < n && band <= 3; band++) { int seed = 7 * n + band + (int)opt.seed; add("mat/chol/" + std::to_string(n) + "/" + std::to_string(band), "Cholesky", [n, band, seed] { case_chol(n, band, seed); }); }
    for (int k = 0; k < 3; k++) add("mat/chol-reject/" + std::to_string(k), "Cholesky", [k] { case_chol_reject(k); });
    for (int d = 0; d <= 2; d++) for (int s = 0; s < (th ? 4 : 2); s++) { int seed = 31 * d + s + (int)opt.seed; add("mat/gso/" + std::to_string(d) + "/" + std::to_string(s), "GSO", [d, seed] { case_gso(5, 3 + (d > 1), d, seed); }); }
    for (int d = 0; d <= 1; d++) for (int s = 0; s < (th ? 4 : 2); s++) { int seed = 17 * d + s + (int)opt.seed; add("mat/pinv/" + std::to_string(d) + "/" + std::to_string(s), "pinv", [d, seed] { case_pinv(4, 3, d, seed); }); }
    for (int n0 = 0; n0 <= 2; n0++) for (int n1 = 0; n1 <= 3; n1 += (th ? 1 : 3)) for (int first = 0; first < 45; first += (th ? 1 : 4)) add("mat/memrep/" + std::to_string(n0) + std::to_string(n1) + "/" + std::to_string(first), "MemRep histories", [n0, n1, first] { case_memrep(n0, n1, 2, first); });
    add("mat/conform", "conformance", [] { case_conform(); });
  }
  if (on("C16")) {
    std::vector<Skel> sk = fixed_skeletons(); qla::Rng srng(1600 + opt.seed); for (int i = 0; i < (th ? 30 : 8); i++) sk.push_back(random_skeleton(srng, i));
    int k = 0;
    for (auto& s : sk) { auto sp = std::make_shared<Skel>(s);
      add("mat/sparse/" + s.name, "sparse build/transpose/ordering/connectivity", [sp] { case_sparse(*sp, 0); });
      for (int ck : (th ? std::vector<int>{0, 1, 2, 3, 4, 5} : std::vector<int>{k % 2, 3 + k % 2, 5})) { long seed = 50 + k + opt.seed; add("mat/envelope/" + s.name + "/cov" + std::to_string(ck), "envelope vs dense LDL'", [sp, ck, seed] { case_envelope(*sp, ck, seed); }); }
      k++; }
  }
}
int main(int argc, char** argv) { return sx::run_main(argc, argv, "mat", gen_cases); }
