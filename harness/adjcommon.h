// Shared by the Adj-level harnesses: problem skeletons (concrete rational design matrices and
// covariance layouts), exact oracles and builders of the real gama input objects.
#pragma once
#include "qla.h"
#include "sx.h"
#include <gnu_gama/adj/adj.h>
#include <gnu_gama/adj/adj_input_data.h>
#include <sstream>
#include <set>

namespace H {
using qla::Q; using qla::QMat; using sx::Real;
using namespace GNU_gama;

struct Block { int dim = 0, width = 0; QMat L, C; };   // C = L L', banded with the width given
struct Problem {
  std::string name;
  int m = 0, n = 0;
  QMat A;
  std::vector<Block> blocks;
  bool has_subset = false; std::vector<int> subset;   // 1-based unknown indices
  // exact oracle data
  QMat P, N, G; int defect = 0; bool subset_resolves = true;
  // optional exact singular value decomposition of the homogenised matrix (svd family)
  bool svd_known = false; QMat U, W, V;
  std::string describe() const {
    std::ostringstream o; o << name << " m=" << m << " n=" << n << " defect=" << defect << " blocks=";
    for (auto& b : blocks) o << b.dim << "/" << b.width << " ";
    if (has_subset) { o << "subset={"; for (int s : subset) o << s << ","; o << "}" << (subset_resolves ? "" : " NON-RESOLVING"); }
    return o.str();
  }
};

inline QMat cov_full(const Problem& p) {
  QMat C(p.m, p.m); int r = 0;
  for (auto& b : p.blocks) { for (int i = 0; i < b.dim; i++) for (int j = 0; j < b.dim; j++) C(r + i, r + j) = b.C(i, j); r += b.dim; }
  return C;
}
inline QMat chol_full(const Problem& p) {      // block diagonal L with C = L L'
  QMat L(p.m, p.m); int r = 0;
  for (auto& b : p.blocks) { for (int i = 0; i < b.dim; i++) for (int j = 0; j < b.dim; j++) L(r + i, r + j) = b.L(i, j); r += b.dim; }
  return L;
}
inline void finish(Problem& p) {
  int tot = 0; for (auto& b : p.blocks) tot += b.dim;
  if (tot != p.m) throw std::logic_error("covariance layout does not match rows: " + p.name);
  p.P = qla::inverse(cov_full(p));
  p.N = qla::mul(qla::mul(qla::trans(p.A), p.P), p.A);
  p.G = qla::nullspace(p.A);
  p.defect = p.G.c;
  p.subset_resolves = true;
  if (p.defect > 0 && p.has_subset) {
    QMat GS((int)p.subset.size(), p.defect);
    for (size_t i = 0; i < p.subset.size(); i++) for (int k = 0; k < p.defect; k++) GS((int)i, k) = p.G(p.subset[i] - 1, k);
    p.subset_resolves = qla::rank(GS) == p.defect;
  }
}

// ---- covariance layouts --------------------------------------------------------------------
inline Block make_block(int dim, int width, qla::Rng& rng, int style) {
  // style 0: unit; 1: diagonal with square variances; 2: banded, integer L; 3: banded, L with halves
  Block b; b.dim = dim; b.width = std::min(width, dim - 1); if (b.width < 0) b.width = 0;
  b.L = QMat(dim, dim);
  static const int sq[] = {1, 2, 3, 1, 2, 4};
  for (int i = 0; i < dim; i++) {
    if (style == 0) { b.L(i, i) = 1; continue; }
    b.L(i, i) = Q(sq[rng.range(0, 5)], style == 3 ? 2 : 1);
    if (style >= 2) for (int j = std::max(0, i - b.width); j < i; j++) b.L(i, j) = Q(rng.range(-2, 2), style == 3 ? 2 : 1);
  }
  if (style <= 1) b.width = 0;
  b.C = qla::mul(b.L, qla::trans(b.L));
  return b;
}
inline void layout(Problem& p, int kind, qla::Rng& rng) {
  // kind 0: unit weights, one 1x1 block per row; 1: 1x1 blocks, different square variances;
  //      2: one diagonal block; 3: banded blocks width 1; 4: banded blocks width 2 (halves); 5: one full block
  p.blocks.clear();
  int m = p.m;
  if (kind == 0) { for (int i = 0; i < m; i++) p.blocks.push_back(make_block(1, 0, rng, 0)); }
  else if (kind == 1) { for (int i = 0; i < m; i++) p.blocks.push_back(make_block(1, 0, rng, 1)); }
  else if (kind == 2) { p.blocks.push_back(make_block(m, 0, rng, 1)); }
  else if (kind == 3 || kind == 4) {
    int left = m;
    while (left > 0) { int d = std::min(left, rng.range(1, 4)); p.blocks.push_back(make_block(d, kind == 3 ? 1 : 2, rng, kind == 3 ? 2 : 3)); left -= d; }
  } else { p.blocks.push_back(make_block(m, m - 1, rng, 2)); }
}

// ---- design matrix skeletons -----------------------------------------------------------------
inline QMat from_rows(int m, int n, std::initializer_list<std::initializer_list<int>> rows) {
  QMat A(m, n); int i = 0;
  for (auto& r : rows) { int j = 0; for (int v : r) { A(i, j++) = v; } i++; }
  return A;
}
inline QMat levelling(int npts, const std::vector<std::pair<int,int>>& lines, const std::vector<int>& observed_heights) {
  int m = (int)lines.size() + (int)observed_heights.size(); QMat A(m, npts); int r = 0;
  for (auto& l : lines) { A(r, l.first - 1) = -1; A(r, l.second - 1) = 1; r++; }
  for (int h : observed_heights) { A(r, h - 1) = 1; r++; }
  return A;
}
struct Skel { std::string name; QMat A; };
inline std::vector<Skel> fixed_skeletons() {
  std::vector<Skel> s;
  s.push_back({"lev4-datum", levelling(4, {{1,2},{2,3},{3,4},{4,1},{1,3}}, {1})});
  s.push_back({"lev5-free", levelling(5, {{1,2},{2,3},{3,4},{4,5},{5,1},{2,4},{1,3}}, {})});
  s.push_back({"dense-5x3", from_rows(5, 3, {{2,1,0},{1,3,-1},{0,1,2},{1,-1,1},{3,0,1}})});
  {  // free 2D vector network: unknowns x1 y1 x2 y2 x3 y3 ; dx,dy observations -> defect 2
    QMat A(8, 6); int r = 0; int pr[4][2] = {{1,2},{2,3},{3,1},{1,2}};
    for (auto& e : pr) { A(r, 2*(e[0]-1)) = -1; A(r, 2*(e[1]-1)) = 1; r++; A(r, 2*(e[0]-1)+1) = -1; A(r, 2*(e[1]-1)+1) = 1; r++; }
    s.push_back({"vec2d-free", A});
  }
  s.push_back({"two-components", levelling(6, {{1,2},{2,3},{3,1},{4,5},{5,6},{6,4},{4,5}}, {})});
  // two unconnected levelling lines of 2 and 3 heights with repeated observations (the real SVD iteration enters its cancellation branch here)
  s.push_back({"two-lines-2-3", levelling(5, {{3,4},{4,5},{2,1},{1,2},{1,2},{5,4}}, {})});
  s.push_back({"three-lines-2-2-3", levelling(7, {{1,2},{3,4},{5,6},{6,7},{2,1},{4,3},{7,5},{1,2}}, {})});
  // fewer observations than unknowns (free chains without redundancy): the design matrix is wider than tall
  s.push_back({"lev4-chain-wide", levelling(4, {{1,2},{2,3},{3,4}}, {})});
  s.push_back({"lev5-two-chains-wide", levelling(5, {{1,2},{2,3},{4,5}}, {})});
  s.push_back({"dep-cols", from_rows(6, 4, {{1,0,1,2},{0,1,2,1},{1,1,3,3},{2,-1,0,3},{1,2,5,4},{0,3,6,3}})});  // c3=c1+2c2, c4=2c1+c2
  s.push_back({"empty-row", from_rows(5, 3, {{1,-1,0},{0,0,0},{0,1,-1},{1,0,1},{2,1,0}})});
  s.push_back({"single-col", from_rows(3, 1, {{1},{2},{-1}})});
  s.push_back({"zero-col", from_rows(4, 3, {{1,0,2},{2,0,1},{1,0,-1},{0,0,3}})});           // unknown 2 never observed
  s.push_back({"band-6x5", from_rows(7, 5, {{1,1,0,0,0},{0,1,1,0,0},{0,0,1,1,0},{0,0,0,1,1},{1,0,0,0,0},{0,0,2,0,1},{1,0,0,0,1}})});
  s.push_back({"square-3x3", from_rows(3, 3, {{2,1,0},{1,2,1},{0,1,2}})});                     // zero redundancy
  {  // 3 free points with heights & one coupling -> defect 3 pattern (three independent shifts)
    QMat A(7, 6);
    int rows[7][2] = {{0,1},{1,2},{2,0},{3,4},{4,5},{5,3},{0,1}};
    for (int i = 0; i < 7; i++) { A(i, rows[i][0]) = -1; A(i, rows[i][1]) = 1; }
    s.push_back({"defect2-loops", A});
  }
  return s;
}
inline Skel random_skeleton(qla::Rng& rng, int idx) {
  int n = rng.range(2, 5), m = n + rng.range(0, 4);
  QMat A(m, n);
  for (int i = 0; i < m; i++) { bool any = false; for (int j = 0; j < n; j++) if (rng.coin(1, 2)) { A(i, j) = rng.range(-2, 2); if (A(i, j) != 0) any = true; } if (!any) A(i, rng.range(0, n - 1)) = 1; }
  int dep = rng.range(0, 2);   // planted dependent columns
  for (int k = 0; k < dep; k++) {
    int c = rng.range(0, n - 1), a = (c + 1 + rng.range(0, n - 2)) % n, b2 = rng.range(0, n - 1);
    int f1 = rng.range(-2, 2), f2 = (b2 != c) ? rng.range(-1, 1) : 0;
    for (int i = 0; i < m; i++) A(i, c) = A(i, a) * f1 + A(i, b2) * f2;
  }
  return {"rand" + std::to_string(idx), A};
}

// subsets used for regularisation of a problem with defect d: a few resolving and non-resolving ones
inline std::vector<std::vector<int>> subsets_for(const QMat& A, int max_count, qla::Rng& rng) {
  std::vector<std::vector<int>> out;
  QMat G = qla::nullspace(A); int d = G.c, n = A.c;
  if (d == 0) return out;
  std::set<std::vector<int>> seen;
  auto add = [&](std::vector<int> s) { std::sort(s.begin(), s.end()); s.erase(std::unique(s.begin(), s.end()), s.end()); if ((int)s.size() >= 1 && seen.insert(s).second) out.push_back(s); };
  { std::vector<int> all; for (int i = 1; i <= n; i++) all.push_back(i); add(all); }
  { std::vector<int> first; for (int i = 1; i <= std::min(n, d); i++) first.push_back(i); add(first); }
  { std::vector<int> last; for (int i = n; i > n - std::min(n, d + 1); i--) last.push_back(i); add(last); }
  for (int t = 0; t < 400 && (int)out.size() < max_count; t++) {
    int k = rng.range(d, std::min(n, d + 2)); std::vector<int> s; for (int i = 0; i < k; i++) s.push_back(rng.range(1, n)); add(s);
  }
  if ((int)out.size() > max_count) out.resize(max_count);
  return out;
}

// ---- builders of the real gama objects ---------------------------------------------------------
inline AdjInputData* make_input(const Problem& p, const std::vector<Real>& b) {
  int nnz = 0; for (int i = 0; i < p.m; i++) for (int j = 0; j < p.n; j++) if (p.A(i, j) != 0) nnz++;
  auto* sm = new SparseMatrix<>(nnz + 1, p.m, p.n);
  for (int i = 0; i < p.m; i++) { sm->new_row(); for (int j = 0; j < p.n; j++) if (p.A(i, j) != 0) sm->add_element(sx::constant(p.A(i, j)), j + 1); }
  int floats = 0; for (auto& bl : p.blocks) floats += bl.dim * (bl.width + 1) - bl.width * (bl.width + 1) / 2;
  auto* bd = new BlockDiagonal<>((int)p.blocks.size(), floats + 1);
  for (auto& bl : p.blocks) {
    std::vector<Real> mem;
    for (int i = 0; i < bl.dim; i++) for (int j = i; j <= std::min(bl.dim - 1, i + bl.width); j++) mem.push_back(sx::constant(bl.C(i, j)));
    bd->add_block(bl.dim, bl.width, mem.data());
  }
  Vec<> rhs(p.m); for (int i = 0; i < p.m; i++) rhs(i + 1) = b[i];
  auto* in = new AdjInputData;
  in->set_mat(sm); in->set_cov(bd); in->set_rhs(rhs);
  if (p.has_subset) { auto* il = new IntegerList<>((int)p.subset.size()); for (size_t i = 0; i < p.subset.size(); i++) (*il)((int)i) = p.subset[i]; in->set_minx(il); }
  return in;
}

inline const char* alg_name(Adj::algorithm a) { return a == Adj::envelope ? "envelope" : a == Adj::gso ? "gso" : a == Adj::svd ? "svd" : "cholesky"; }

inline Real dotQ(const QMat& M, int row, const std::vector<Real>& v) { Real s = sx::rat(0); for (int j = 0; j < M.c; j++) if (M(row, j) != 0) s = s + sx::constant(M(row, j)) * v[j]; return s; }

}  // namespace H
