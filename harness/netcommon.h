// Network-level harness support: generated GKF text -> real GKFparser -> real LocalNetwork, with
// observed values (and optionally approximate coordinates) replaced by symbolic terms afterwards;
// an exact oracle of the weighted, datum-constrained least-squares solution built from the spec only.
#pragma once
#include "qla.h"
#include "sx.h"
#include <gnu_gama/xml/gkfparser.h>
#include <gnu_gama/local/network.h>
#include <gnu_gama/local/acord/acord2.h>
#include <gnu_gama/local/acord/acordstatistics.h>
#include <gnu_gama/local/test_linearization_visitor.h>
#include <gnu_gama/local/results/text/general_parameters.h>
#include <gnu_gama/xml/localnetworkxml.h>
#include <sstream>
#include <memory>
#include <map>
#include <set>
#include <algorithm>

namespace N {
using qla::Q; using qla::QMat; using sx::Real;
using namespace GNU_gama::local;

inline std::string qstr(const Q& q, int digits = 6) {          // exact decimal if the denominator allows it
  std::ostringstream o; o.precision(15);
  mpz_class den = q.get_den(); mpz_class t = den;
  while (t % 2 == 0) t /= 2; while (t % 5 == 0) t /= 5;
  if (t != 1) throw std::logic_error("qstr: value has no finite decimal expansion: " + q.get_str());
  // scale to integer
  int k = 0; mpq_class v = q; while (v.get_den() != 1 && k < 30) { v *= 10; v.canonicalize(); k++; }
  std::string s = mpz_class(abs(v.get_num())).get_str();
  if ((int)s.size() <= k) s = std::string(k - s.size() + 1, '0') + s;
  if (k) s.insert(s.size() - k, ".");
  if (v < 0) s = "-" + s;
  (void)digits; return s;
}

enum OType { HDIFF, XDIFF, YDIFF, ZDIFF, CX, CY, CZ, DIST, DIR, ANGLE };
struct Obs { OType t; std::string from, to, to2; Q val; Q stdev = 1; };
struct Cluster {
  enum Kind { HD, VEC, COORD, OBS } kind = HD;
  std::vector<Obs> obs;               // VEC: triples dx,dy,dz (or pairs in 2D); COORD: x,y(,z) per point
  bool has_cov = false; QMat L; int band = 0;   // covariance C = L L' (mm^2), banded
  bool has_C = false; QMat C;                   // explicit covariance (takes precedence over L L')
  std::string station;                // OBS
};
struct Pt { std::string id; Q x, y, z; bool has_xy = false, has_z = false; std::string fix, adj; bool give_xy = true, give_z = true; Q ax, ay, az; };
struct Spec {
  std::string name; std::vector<Pt> pts; std::vector<Cluster> cl;
  Q sigma_apr = 10; std::string sigma_act = "aposteriori"; Q conf_pr = Q(95, 100); Q tol_abs = 1000; std::string axes, angles;
  const Pt* pt(const std::string& id) const { for (auto& p : pts) if (p.id == id) return &p; return nullptr; }
  Pt* pt(const std::string& id) { for (auto& p : pts) if (p.id == id) return &p; return nullptr; }
};

inline QMat cov_of(const Cluster& c) { return c.has_C ? c.C : qla::mul(c.L, qla::trans(c.L)); }

inline std::string gkf(const Spec& s) {
  std::ostringstream o;
  o << "<?xml version=\"1.0\" ?>\n<gama-local xmlns=\"http://www.gnu.org/software/gama/gama-local\">\n<network";
  if (!s.axes.empty()) o << " axes-xy=\"" << s.axes << "\"";
  if (!s.angles.empty()) o << " angles=\"" << s.angles << "\"";
  o << ">\n<description>" << s.name << "</description>\n";
  o << "<parameters sigma-apr=\"" << qstr(s.sigma_apr) << "\" conf-pr=\"" << qstr(s.conf_pr) << "\" tol-abs=\"" << qstr(s.tol_abs) << "\" sigma-act=\"" << s.sigma_act << "\" />\n";
  o << "<points-observations>\n";
  for (auto& p : s.pts) {
    o << "<point id=\"" << p.id << "\"";
    if (p.has_xy && p.give_xy) o << " x=\"" << qstr(p.ax) << "\" y=\"" << qstr(p.ay) << "\"";
    if (p.has_z && p.give_z) o << " z=\"" << qstr(p.az) << "\"";
    if (!p.fix.empty()) o << " fix=\"" << p.fix << "\"";
    if (!p.adj.empty()) o << " adj=\"" << p.adj << "\"";
    o << " />\n";
  }
  for (auto& c : s.cl) {
    auto covmat = [&]() {
      if (!c.has_cov) return;
      QMat C = cov_of(c); int n = C.r;
      o << "<cov-mat dim=\"" << n << "\" band=\"" << c.band << "\">\n";
      for (int i = 0; i < n; i++) { for (int j = i; j <= std::min(n - 1, i + c.band); j++) o << qstr(C(i, j)) << " "; o << "\n"; }
      o << "</cov-mat>\n";
    };
    if (c.kind == Cluster::HD) {
      o << "<height-differences>\n";
      for (auto& ob : c.obs) { o << "<dh from=\"" << ob.from << "\" to=\"" << ob.to << "\" val=\"" << qstr(ob.val) << "\""; if (!c.has_cov) o << " stdev=\"" << qstr(ob.stdev) << "\""; o << " />\n"; }
      covmat(); o << "</height-differences>\n";
    } else if (c.kind == Cluster::VEC) {
      o << "<vectors>\n";
      for (size_t i = 0; i < c.obs.size();) {
        const Obs& a = c.obs[i];
        o << "<vec from=\"" << a.from << "\" to=\"" << a.to << "\" dx=\"" << qstr(c.obs[i].val) << "\" dy=\"" << qstr(c.obs[i + 1].val) << "\" dz=\"" << qstr(c.obs[i + 2].val) << "\" />\n";
        i += 3;
      }
      covmat(); o << "</vectors>\n";
    } else if (c.kind == Cluster::COORD) {
      o << "<coordinates>\n";
      for (size_t i = 0; i < c.obs.size();) {
        const Obs& a = c.obs[i];
        o << "<point id=\"" << a.to << "\"";
        while (i < c.obs.size() && c.obs[i].to == a.to) { o << (c.obs[i].t == CX ? " x=\"" : c.obs[i].t == CY ? " y=\"" : " z=\"") << qstr(c.obs[i].val) << "\""; i++; }
        o << " />\n";
      }
      covmat(); o << "</coordinates>\n";
    } else {
      o << "<obs from=\"" << c.station << "\">\n";
      for (auto& ob : c.obs) {
        if (ob.t == DIST) o << "<distance to=\"" << ob.to << "\" val=\"" << qstr(ob.val) << "\"";
        else if (ob.t == DIR) o << "<direction to=\"" << ob.to << "\" val=\"" << qstr(ob.val) << "\"";
        else o << "<angle bs=\"" << ob.to << "\" fs=\"" << ob.to2 << "\" val=\"" << qstr(ob.val) << "\"";
        if (!c.has_cov) o << " stdev=\"" << qstr(ob.stdev) << "\"";
        o << " />\n";
      }
      covmat(); o << "</obs>\n";
    }
  }
  o << "</points-observations>\n</network>\n</gama-local>\n";
  return o.str();
}

// ---- the real network -----------------------------------------------------------------------------
struct Net {
  std::unique_ptr<LocalNetwork> IS;
  std::string parse_error; int parse_line = 0;
  bool parse(const std::string& text) {
    IS.reset(new LocalNetwork);
    try { GKFparser p(*IS); p.xml_parse(text.c_str(), (int)text.size(), 1); }
    catch (const ParserException& e) { parse_error = e.what(); parse_line = e.line; return false; }
    catch (const GNU_gama::local::Exception& e) { parse_error = e.what(); return false; }
    return true;
  }
  std::vector<Observation*> all_obs() { std::vector<Observation*> v; for (ObservationData::iterator i = IS->OD.begin(), e = IS->OD.end(); i != e; ++i) v.push_back(*i); return v; }
  // the steps of gama-local's main() between parsing and adjustment
  void prepare(const std::string& alg, bool run_acord) {
    IS->set_algorithm(alg);
    IS->remove_inconsistency();
    if (run_acord) { Acord2 a(IS->PD, IS->OD); a.execute(); refine_obsdh_reductions(IS.get()); }
  }
};

// ---- exact oracle ------------------------------------------------------------------------------------
// unknowns are named (point, 'X'|'Y'|'Z'); observation rows carry +-1 on them (linear observation types)
struct Oracle {
  std::vector<std::pair<std::string, char>> unk;          // column -> (point id, type)
  QMat A, P, N, G, Qx;                                    // Qx: cofactors of unknowns for the datum given
  std::vector<Real> l, x, r; Real vpv; int defect = 0, dof = 0; bool resolves = true;
  int col(const std::string& id, char t) const { for (size_t i = 0; i < unk.size(); i++) if (unk[i].first == id && unk[i].second == t) return (int)i; return -1; }
};

inline std::vector<Real> lin(const QMat& M, const std::vector<Real>& v) {
  std::vector<Real> o(M.r, sx::rat(0));
  for (int i = 0; i < M.r; i++) { Real s = sx::rat(0); for (int j = 0; j < M.c; j++) if (M(i, j) != 0) s = s + sx::constant(M(i, j)) * v[j]; o[i] = s; }
  return o;
}

// A (m x n), l (m), P (m x m); S = 0-based indices of constrained unknowns (empty => all are used when defect>0 is not allowed)
inline void oracle_solve(Oracle& o, const std::vector<int>& S) {
  int n = o.A.c, m = o.A.r;
  QMat At = qla::trans(o.A);
  o.N = qla::mul(qla::mul(At, o.P), o.A);
  o.G = qla::nullspace(o.A); o.defect = o.G.c; o.dof = m - n + o.defect;
  int d = o.defect;
  QMat B(n, d);
  for (int s : S) for (int k = 0; k < d; k++) B(s, k) = o.G(s, k);
  o.resolves = (d == 0) || qla::rank(B) == d;
  if (!o.resolves) return;
  QMat K(n + d, n + d);
  for (int i = 0; i < n; i++) { for (int j = 0; j < n; j++) K(i, j) = o.N(i, j); for (int k = 0; k < d; k++) { K(i, n + k) = B(i, k); K(n + k, i) = B(i, k); } }
  QMat Ki = qla::inverse(K);
  o.Qx = QMat(n, n); for (int i = 0; i < n; i++) for (int j = 0; j < n; j++) o.Qx(i, j) = Ki(i, j);
  std::vector<Real> Pl = lin(o.P, o.l), AtPl = lin(At, Pl);
  o.x = lin(o.Qx, AtPl);
  std::vector<Real> Ax = lin(o.A, o.x);
  o.r.assign(m, sx::rat(0)); for (int i = 0; i < m; i++) o.r[i] = Ax[i] - o.l[i];
  std::vector<Real> Pr = lin(o.P, o.r);
  o.vpv = sx::rat(0); for (int i = 0; i < m; i++) o.vpv = o.vpv + o.r[i] * Pr[i];
}

}  // namespace N
