// Harness "geo" (C18): angle conversions and bearings.  Symbolic angles inside stated windows around the field
// boundaries (the integer truncations of the code are forked over their feasible values by the solver),
// symbolic point pairs for bearing/distance.
#include "sx.h"
#include <gnu_gama/gon2deg.h>
#include <gnu_gama/radian.h>
#include <gnu_gama/local/bearing.h>
#include <gnu_gama/local/lpoint.h>
#include <sstream>
#include <iostream>
#include <cstdlib>

using sx::Real;
using namespace GNU_gama;
static mpq_class dq(const char* t) {          // exact rational of a decimal literal
  std::string s(t); bool neg = !s.empty() && s[0] == '-'; if (neg) s.erase(0, 1);
  size_t p = s.find('.'); std::string num = s, den = "1";
  if (p != std::string::npos) { num = s.substr(0, p) + s.substr(p + 1); den += std::string(s.size() - p - 1, '0'); }
  mpq_class q(num + "/" + den, 10); q.canonicalize(); return neg ? mpq_class(-q) : q;
}

// fields of "[-]ddd-mm-ss.sss": degrees and minutes natively, the seconds field as a term (symbolic build: the
// reserved literal printed for a symbolic number is mapped back to its term) or as the printed number (replay)
struct DMS { bool neg = false; long d = 0, m = 0; Real s; std::string sfield; bool ok = false; };
static DMS parse_dms(const std::string& str) {
  DMS r; std::string t; for (char c : str) if (c != ' ') t += c;
  if (!t.empty() && t[0] == '-') { r.neg = true; t.erase(0, 1); }
  size_t a = t.find('-'), b = (a == std::string::npos) ? a : t.find('-', a + 1);
  if (a == std::string::npos || b == std::string::npos) return r;
  r.d = atol(t.substr(0, a).c_str()); r.m = atol(t.substr(a + 1, b - a - 1).c_str()); r.sfield = t.substr(b + 1);
  std::istringstream is(r.sfield); is >> r.s; r.ok = !is.fail(); return r;
}

static void case_gon2deg(int window, int sign, int prec) {
  // windows (gon): around 0, a seconds carry just below one minute, just below one degree, just below 100 gon, negatives, generic
  static const char* lo[] = {"0",      "0.0185", "1.1105",  "99.9995", "-0.0190",  "33.3300"};
  static const char* hi[] = {"0.0010", "0.0187", "1.11115", "100.0005", "-0.0180", "33.3400"};
  Real g = sx::input("g"); sx::assume_range(g, dq(lo[window]), dq(hi[window]));
  std::string out = gon2deg(g, sign, prec);
  DMS f = parse_dms(out);
  std::string tag = "gon2deg window " + std::to_string(window) + " sign " + std::to_string(sign) + " prec " + std::to_string(prec);
  sx::check_true(f.ok, tag + " output has the form d-m-s", out); if (!f.ok) return;
  sx::check_true(f.d >= 0 && f.d < 400 && f.m >= 0 && f.m < 60, tag + " degrees/minutes in range", out);
  bool negative_input = (window == 4);
  Real absg = negative_input ? -g : g;
  sx::check_true(f.neg == (negative_input && sign != 0), tag + " minus sign shown exactly for negative input in the signed modes", out);
  if (sx::symbolic_mode()) {
    // the printed field is the value rounded to prec digits; seconds within half a printed unit of 60 are carried into the minutes,
    // so the fields stand for the angle to within half a printed unit and the seconds field can never read 60
    mpq_class half(1, 2); for (int i = 0; i < prec; i++) half /= 10;
    { Real diff = absg * Real(0.9) - (sx::rat(f.d) + sx::rat(f.m) / sx::rat(60) + f.s / sx::rat(3600));
      sx::check_le(diff, sx::constant(half / 3600), tag + " d + m/60 + s/3600 = |gon|*0.9 to half a printed unit"); sx::check_le(-diff, sx::constant(half / 3600), tag + " d + m/60 + s/3600 = |gon|*0.9 to half a printed unit"); }
    sx::check_ge0(f.s, tag + " seconds >= 0"); sx::check_lt(f.s, sx::rat(60), tag + " seconds < 60 before rounding");
    sx::check_lt(f.s, sx::constant(mpq_class(60) - half), tag + " printed seconds field < 60 (no carry into minutes)");
    sx::check_true(f.neg == false || true, "", "");
  } else {
    sx::f64 printed = atof(f.sfield.c_str());
    sx::check_true(printed < 60.0, tag + " printed seconds field < 60 (no carry into minutes)", out);
    sx::f64 back = (f.d + f.m / 60.0 + printed / 3600.0) / 0.9; sx::f64 want = sx::numeric(absg); sx::f64 tol = 0.6 / 3600.0 / 0.9; for (int i = 0; i < prec; i++) tol /= 10;
    sx::check_true(back - want < tol && want - back < tol, tag + " d + m/60 + s/3600 = |gon|*0.9", out);
  }
  // and back through the reader of sexagesimal values: deg2gon(gon2deg(g)) = g (|g| when the sign is not shown)
  { Real back = sx::rat(0); bool ok = deg2gon(out, back); sx::check_true(ok, tag + " deg2gon accepts the string written by gon2deg", out);
    Real expect = (sign == 0) ? absg : g;
    if (ok) { if (sx::symbolic_mode()) { Real d = back - expect;      // to half a printed unit of the seconds (a carried value reads back as the rounded one)
        mpq_class half2(1, 2); for (int i = 0; i < prec; i++) half2 /= 10; Real tolr = sx::constant(half2 / 3600 / mpq_class(9, 10) + mpq_class(1, 1000000000));
        sx::check_le(d, tolr, tag + " deg2gon(gon2deg(g)) = g"); sx::check_le(-d, tolr, tag + " deg2gon(gon2deg(g)) = g"); }
      else { sx::f64 tol = 0.6 / 3600.0 / 0.9; for (int i = 0; i < prec; i++) tol /= 10; sx::f64 d = sx::numeric(back) - sx::numeric(expect); sx::check_true(d < tol && -d < tol, tag + " deg2gon(gon2deg(g)) = g", out); } } }
  sx::reached("geo-gon2deg");
}
static void case_deg2gon_literals() {
  struct L { const char* s; bool ok; const char* deg; };       // value in degrees as an exact decimal
  static const L lits[] = {{"-0-30-00", true, "-0.5"}, {"+0-30-00", true, "0.5"}, {" 12-30-00 ", true, "12.5"}, {"-12-30-18", true, "-12.505"}, {"0-00-00", true, "0"}, {"-0-00-36", true, "-0.01"},
                           {" -0-59-59.5 ", false, "0"}, {"359-59-60", true, "360"}, {"12-30", false, "0"}, {"12--30-00", false, "0"}, {"-", false, "0"}, {"", false, "0"}, {"1-2-3x", false, "0"}};
  for (const L& l : lits) { Real g = sx::rat(777); bool ok = deg2gon(l.s, g); std::string tag = std::string("deg2gon(\"") + l.s + "\")";
    if (std::string(l.s) == " -0-59-59.5 ") { sx::check_true(ok, tag + " accepted", ""); if (ok) { sx::f64 d = sx::numeric(g) * 0.9 + (59.0 / 60 + 59.5 / 3600); sx::check_true(d < 1e-12 && -d < 1e-12, tag + " value", sx::show(g)); } continue; }
    sx::check_true(ok == l.ok, tag + (l.ok ? " accepted" : " refused"), "");
    if (ok && l.ok) { sx::f64 d = sx::numeric(g) * 0.9 - sx::numeric(sx::constant(dq(l.deg))); sx::check_true(d < 1e-12 && -d < 1e-12, tag + " value", sx::show(g)); } }
  sx::reached("geo-deg2gon");
}

static void case_dms(int window) {
  // rad2dms(dms2rad(x)) = x for x = d.mmss with valid fields, and field ranges of rad2dms
  // windows lie strictly inside valid field ranges: exactly on a field boundary (12.30 = 12 deg 30 min 0 s) the result of the
  // truncations depends on the last bit of the pi constants (rounding, limit L1)
  static const char* lo[] = {"12.3001", "0.0001", "359.5950", "45.5951", "-12.3010"};
  static const char* hi[] = {"12.3010", "0.0010", "359.5958", "45.59585", "-12.3001"};
  Real x = sx::input("x"); sx::assume_range(x, dq(lo[window]), dq(hi[window]));
  Real r = dms2rad(x);
  std::string tag = "dms window " + std::to_string(window);
  sx::check_ge0(r, tag + " dms2rad >= 0"); sx::check_lt(r, Real(2 * M_PI), tag + " dms2rad < 2 pi");
  Real y = rad2dms(r);
  Real expect = x; if (window == 4) { /* negative input is normalised to [0, 2pi): 360 - x in d.mmss arithmetic is not linear; only the range is checked */ expect = y; }
  sx::check_le(y - expect, sx::rat(1, 1000000000), tag + " rad2dms(dms2rad(x)) <= x + 1e-9"); sx::check_le(expect - y, sx::rat(1, 1000000000), tag + " rad2dms(dms2rad(x)) >= x - 1e-9");
  sx::check_ge0(y, tag + " rad2dms >= 0"); sx::check_lt(y, sx::rat(360), tag + " rad2dms < 360");
  sx::reached("geo-dms");
}

static void case_bearing() {
  using namespace GNU_gama::local;
  Real ax = sx::input("ax"), ay = sx::input("ay"), bx = sx::input("bx"), by = sx::input("by");
  for (Real v : {ax, ay, bx, by}) sx::assume_range(v, -100000, 100000);
  Real dx = bx - ax, dy = by - ay; sx::assume_le(sx::rat(1, 100), dx * dx + dy * dy);
  Real b1, d1, b2, d2; bearing_distance(ay, ax, by, bx, b1, d1); bearing_distance(by, bx, ay, ax, b2, d2);
  sx::check_eq(d1, d2, "distance symmetric"); sx::check_eq(d1 * d1, dx * dx + dy * dy, "distance^2 = dx^2 + dy^2"); sx::check_ge0(d1, "distance >= 0");
  sx::check_ge0(b1, "bearing >= 0"); sx::check_lt(b1, Real(2 * M_PI), "bearing < 2 pi");
  sx::check_eq(d1 * sin(b1), dy, "d sin(bearing) = dy"); sx::check_eq(d1 * cos(b1), dx, "d cos(bearing) = dx");
  Real diff = b2 - b1;        // +-pi
  Real k = (diff - Real(M_PI)) / Real(2 * M_PI); mpq_class q;
  if (sx::symbolic_mode()) sx::check_true(sx::is_rational(k, &q) && q.get_den() == 1, "bearing(b,a) = bearing(a,b) + pi modulo 2 pi", sx::show(diff));
  else { sx::f64 kk = sx::numeric(k); sx::check_true(::fabs(kk - ::round(kk)) < (sx::f64)1e-9, "bearing(b,a) = bearing(a,b) + pi modulo 2 pi", ""); }
  sx::reached("geo-bearing");
}
static void case_bearing_near() {      // points between the documented cut (1e-6 m) and everyday distances
  using namespace GNU_gama::local;
  Real dx = sx::input("dx"), dy = sx::input("dy");
  sx::assume_range(dx, mpq_class(-1, 500), mpq_class(1, 500)); sx::assume_range(dy, mpq_class(-1, 500), mpq_class(1, 500));
  sx::assume_le(sx::rat(1, 250000000000LL), dx * dx + dy * dy);                 // at least 2e-6 m apart
  Real ax = sx::rat(1000), ay = sx::rat(2000);
  Real b1, d1, b2, d2; bearing_distance(ay, ax, ay + dy, ax + dx, b1, d1); bearing_distance(ay + dy, ax + dx, ay, ax, b2, d2);
  sx::check_eq(d1 * d1, dx * dx + dy * dy, "near points: distance^2 = dx^2 + dy^2"); sx::check_eq(d1, d2, "near points: distance symmetric");
  sx::check_eq(d1 * sin(b1), dy, "near points: d sin(bearing) = dy"); sx::check_eq(d1 * cos(b1), dx, "near points: d cos(bearing) = dx");
  Real k = (b2 - b1 - Real(M_PI)) / Real(2 * M_PI); mpq_class q;
  if (sx::symbolic_mode()) sx::check_true(sx::is_rational(k, &q) && q.get_den() == 1, "near points: bearing(b,a) = bearing(a,b) + pi modulo 2 pi", sx::show(b2 - b1));
  else { sx::f64 kk = sx::numeric(k); sx::check_true(::fabs(kk - ::round(kk)) < (sx::f64)1e-9, "near points: bearing(b,a) = bearing(a,b) + pi modulo 2 pi", ""); }
  sx::reached("geo-near");
}
static void case_bearing_cut() {
  using namespace GNU_gama::local;
  Real e = sx::input("e"); sx::assume_range(e, 0, mpq_class(1, 2000000));      // closer than the 1e-6 cut
  Real b, d; bearing_distance(sx::rat(0), sx::rat(0), e, sx::rat(0), b, d);
  sx::check_zero(b, "points closer than 1e-6: bearing 0"); sx::check_zero(d, "points closer than 1e-6: distance 0");
  sx::reached("geo-cut");
}

static void gen_cases(const sx::Options& opt, std::vector<sx::Case>& cases) {
  bool th = opt.tier == "thorough";
  for (int w = 0; w < 6; w++) for (int sign = 0; sign <= 3; sign++) for (int prec = 1; prec <= (th ? 4 : 2); prec++) {
    if (!th && (sign + w) % 2) continue;
    cases.push_back({"geo/gon2deg/" + std::to_string(w) + "/" + std::to_string(sign) + "/" + std::to_string(prec), "angle formatting", [w, sign, prec] { case_gon2deg(w, sign, prec); }});
  }
  for (int w = 0; w < 5; w++) cases.push_back({"geo/dms/" + std::to_string(w), "dms<->rad", [w] { case_dms(w); }});
  cases.push_back({"geo/deg2gon-literals", "angle parsing", [] { case_deg2gon_literals(); }});
  cases.push_back({"geo/bearing", "bearing/distance", [] { case_bearing(); }});
  cases.push_back({"geo/bearing-near", "bearing/distance", [] { case_bearing_near(); }});
  cases.push_back({"geo/bearing-cut", "bearing/distance", [] { case_bearing_cut(); }});
}
int main(int argc, char** argv) { return sx::run_main(argc, argv, "geo", gen_cases); }
