# /verif build: framework (engine objects) and the two builds of the real gama sources.
# Everything derived from /repo is rebuilt from /repo's CURRENT working tree (dependency tracked).
REPO    ?= /repo
V       := $(patsubst %/,%,$(dir $(abspath $(lastword $(MAKEFILE_LIST)))))
B       ?= $(V)/build
CXX     ?= g++
STD     := -std=c++17
SYMFLAGS:= $(STD) -O1 -g0 -w -I$(REPO)/lib -I$(V)/symx -DSX_WITH_GAMA -include $(V)/symx/prefix.h -ftrivial-auto-var-init=pattern -fno-strict-aliasing
DBLFLAGS:= $(STD) -O1 -g0 -w -I$(REPO)/lib -I$(V)/symx

# translation units of the library; the excluded ones do not compile under the scalar
# substitution (bool/int initialised from a scalar, yaml-cpp headers) and anchor no numeric property
EXCL    := %/yaml2gkf.cpp %/gkf2yaml.cpp %/html.cpp %/localnetworkoctave.cpp
# statan.cpp is replaced by uninterpreted stubs in the symbolic build only (symx/statan_stub.cpp)
SYMEXCL := %/statan.cpp
SRCS    := $(filter-out $(EXCL),$(shell find $(REPO)/lib/gnu_gama -name '*.cpp' | sort))
REL     := $(patsubst $(REPO)/lib/%.cpp,%,$(SRCS))
SYMOBJ  := $(addprefix $(B)/sym/,$(addsuffix .o,$(patsubst $(REPO)/lib/%.cpp,%,$(filter-out $(SYMEXCL),$(SRCS)))))
DBLOBJ  := $(addprefix $(B)/dbl/,$(addsuffix .o,$(REL)))

.PHONY: framework symlib dbllib clean
framework: $(B)/sx.o $(B)/sx_replay.o

$(B)/sx.o: symx/sx.cpp symx/sx.h
	@mkdir -p $(B)
	$(CXX) $(STD) -O2 -g0 -c symx/sx.cpp -o $@
$(B)/sx_replay.o: symx/sx_replay.cpp symx/sx.h
	@mkdir -p $(B)
	$(CXX) $(STD) -O2 -g0 -DSX_REPLAY -c symx/sx_replay.cpp -o $@

symlib: $(B)/libgama_sym.a
dbllib: $(B)/libgama_dbl.a

$(B)/gen/svd_stub.cpp: $(REPO)/lib/matvec/svd.h symx/gen_svd_stub.py
	@mkdir -p $(B)/gen
	python3 symx/gen_svd_stub.py $(REPO)/lib/matvec/svd.h $@
# C17: the text of statan.cpp with observers at its two unbounded loops (included by harness/h_stat.cpp)
$(B)/gen/statan_real.inc: $(REPO)/lib/gnu_gama/statan.cpp symx/gen_statan_real.py
	@mkdir -p $(B)/gen
	python3 symx/gen_statan_real.py $(REPO)/lib/gnu_gama/statan.cpp $@
$(B)/gen/svd_stub.o: $(B)/gen/svd_stub.cpp symx/prefix.h symx/sx.h symx/svd_contract.h
	$(CXX) $(SYMFLAGS) -MMD -MP -c $< -o $@
$(B)/svd_contract.o: symx/svd_contract.cpp symx/prefix.h symx/sx.h symx/svd_contract.h
	$(CXX) $(SYMFLAGS) -MMD -MP -c $< -o $@
$(B)/statan_stub.o: symx/statan_stub.cpp symx/prefix.h symx/sx.h
	$(CXX) $(SYMFLAGS) -MMD -MP -c $< -o $@
$(B)/libgama_sym.a: $(SYMOBJ) $(B)/gen/svd_stub.o $(B)/svd_contract.o $(B)/statan_stub.o
	@rm -f $@; ar rcs $@ $(SYMOBJ) $(B)/gen/svd_stub.o $(B)/svd_contract.o $(B)/statan_stub.o
$(B)/libgama_dbl.a: $(DBLOBJ)
	@rm -f $@; ar rcs $@ $(DBLOBJ)

$(B)/sym/%.o: $(REPO)/lib/%.cpp symx/prefix.h symx/sx.h
	@mkdir -p $(dir $@)
	$(CXX) $(SYMFLAGS) -MMD -MP -c $< -o $@
$(B)/dbl/%.o: $(REPO)/lib/%.cpp
	@mkdir -p $(dir $@)
	$(CXX) $(DBLFLAGS) -MMD -MP -c $< -o $@

# harnesses: the same source, symbolic and replay build
HARN := $(patsubst harness/h_%.cpp,%,$(wildcard harness/h_*.cpp))
$(B)/bin/%.sym: harness/h_%.cpp $(B)/libgama_sym.a $(B)/sx.o harness/*.h $(B)/gen/statan_real.inc
	@mkdir -p $(B)/bin
	$(CXX) $(SYMFLAGS) -Iharness -I$(B)/gen -MMD -MP -MF $(B)/bin/$*.sym.d $< $(B)/sx.o $(B)/libgama_sym.a -rdynamic -lz3 -lgmpxx -lgmp -lexpat -o $@
$(B)/bin/%.dbl: harness/h_%.cpp $(B)/libgama_dbl.a $(B)/sx_replay.o harness/*.h $(B)/gen/statan_real.inc
	@mkdir -p $(B)/bin
	$(CXX) $(DBLFLAGS) -DSX_REPLAY -Iharness -I$(B)/gen -MMD -MP -MF $(B)/bin/$*.dbl.d $< $(B)/sx_replay.o $(B)/libgama_dbl.a -lgmpxx -lgmp -lexpat -o $@

-include $(SYMOBJ:.o=.d) $(DBLOBJ:.o=.d) $(B)/gen/svd_stub.d $(B)/svd_contract.d $(wildcard $(B)/bin/*.d)

clean:
	rm -rf $(B)
